#!/usr/bin/env python3
"""bin/selftest: demonstrate that the specification is BOUND to the traces (DESIGN.md section 5.3).

A fixed scenario is executed on a fresh build of /repo and validated (must give no verdict).  Then one recorded
field is corrupted, one hook event is removed, or one event is dropped, and the same trace is validated again: every
such tampering must be rejected with a verdict of the expected property.  The same is done for the LU component trace
(TraceFactor).  Result: /verif/evidence/selftest.json; exit 0 iff the clean traces are accepted and every tampered
trace is rejected."""
import sys as _sys
_sys.set_int_max_str_digits(0)      # exact rationals with thousands of digits are ordinary data here
import copy, json, os, sys, tempfile, shutil
ROOT = os.path.dirname(os.path.dirname(os.path.abspath(__file__)))
sys.path[:0] = [os.path.join(ROOT, "lib"), os.path.join(ROOT, "gen")]
import build, pipeline

SCEN = """scenario selftest
handler on
load h0 prob 2 2 min  2 0 1 1 1  2 0 1 1 -1  1 0 4 x  2 0 inf y  1 G c1  3 L c2
dump h0
change_coef h0 0 1 2
dump h0
exact h0 primal b0 1
sol h0
opt_primal h0
sol h0
binv h0
write_basis h0 b0 st.bas
write_prob h0 st.lp LP
write_prob h0 st.mps MPS
read_basis h0 b1 st.bas
change_bound h0 7 U 1
dump h0
free_basis b0
free_basis b1
free h0
"""

LU = """scenario selftest_lu
matrix 3
c 2 0 2 1 1
c 2 1 3 2 1
c 1 2 5
fix
units
update 1 2 0 1 2 4
units
update 0 1 1 3
units
"""


def first(evs, call, k=0):
    return [i for i, e in enumerate(evs) if e["call"] == call][k]


def tamperings(evs):
    """(name, expected property, mutated event list)"""
    out = []

    def mut(name, prop, f):
        e2 = copy.deepcopy(evs)
        f(e2)
        out.append((name, prop, pipeline.renumber(e2)))
    mut("dump after an edit reports the old coefficient", "C06", lambda e: e[first(e, "dump", 1)]["rows"][0].__setitem__(1, {"j": 1, "v": "1"}))
    mut("the dumped column store has one column's count one too large", "C06", lambda e: e[first(e, "dump", 1)]["store"]["cnt"].__setitem__(0, e[first(e, "dump", 1)]["store"]["cnt"][0] + 1))
    mut("the dumped logical column of row 0 has the wrong upper bound", "C06", lambda e: e[first(e, "dump", 1)]["store"]["lgup"].__setitem__(0, "5"))
    mut("the edit event is dropped from the trace", "C06", lambda e: e.pop(first(e, "change_coef")))
    mut("exact solve reports INFEASIBLE instead of OPTIMAL", "C02", lambda e: e[first(e, "exact")].update(status=2))
    mut("returned x is off by one in one component", "C01", lambda e: e[first(e, "exact")]["x"].__setitem__(1, "3/2"))
    mut("stored solution value differs", "C01", lambda e: (e[first(e, "sol")].update(objval="2"), e[first(e, "sol")]["gs"].update(val="2")))
    mut("the hook event of the exact optimality test is removed", "C01", lambda e: e[first(e, "exact")].update(hook=[h for h in e[first(e, "exact")]["hook"] if h["e"] != "opt_test"]))
    mut("a rejected call (column index 7) is recorded as accepted", "C07", lambda e: e[first(e, "change_bound")].update(rval=0))
    return out


def tamper_basis_file(evs):
    e2 = copy.deepcopy(evs)
    i = first(e2, "basis_file")
    if e2[i]["lines"]:
        e2[i]["lines"][0]["t"] = "XU" if e2[i]["lines"][0]["t"] == "XL" else "XL"
    return [("basis file content differs from Write(B)", "C14", pipeline.renumber(e2))]


def tamper_lp_text(evs):
    """the writer specification is bound to the file the library wrote: one changed token is reported (as specification drift)"""
    e2 = copy.deepcopy(evs)
    i = first(e2, "lp_text")
    k = e2[i]["tokens"].index("Subject")
    e2[i]["tokens"][k - 1] = "q" + e2[i]["tokens"][k - 1]
    e3 = copy.deepcopy(evs)
    i = first(e3, "mps_text")
    e3[i]["tree"]["bounds"] = e3[i]["tree"]["bounds"][:-1]
    return [("one token of the written LP file is changed", "SPEC-DRIFT", pipeline.renumber(e2)),
            ("one bound line of the written MPS file is dropped", "SPEC-DRIFT", pipeline.renumber(e3))]


def model_mutations(work):
    """a model that cannot fail proves nothing: mutated copies of the writer specification must violate MC_LPWrite"""
    import subprocess, re
    res = []
    muts = [("the default upper bound ignores the integrality mark", 'DefaultUpper(lo, up, isint) == IF isint /\\ lo = "0" THEN up = "1" ELSE up = "inf"', 'DefaultUpper(lo, up, isint) == up = "inf"', "bounds"),
            ("a lower bound of -inf is always taken as default", 'DefaultLower(lo, up) == (lo = "0" /\\ ~NegS(up)) \\/ (lo = "-inf" /\\ NegS(up))', 'DefaultLower(lo, up) == (lo = "0" /\\ ~NegS(up)) \\/ lo = "-inf"', "bounds"),
            ("the second half of a ranged row repeats the right-hand side", 'row("", "<=", RAdd(L.rhs[i], L.range[i]))', 'row("", "<=", L.rhs[i])', "rowsq"),
            ("the MPS writer ignores the integrality mark when deciding whether the upper bound is the default", 'pu == ~LW!DefaultUpper(lo, up, L.isint[j] = 1)', 'pu == up # "inf"', "bounds"),
            ("name repair does not look at the names already in use", 'IF (p \\o buf) \\notin table THEN p \\o buf', 'IF TRUE THEN p \\o buf', "namesq")]
    src = os.path.join(ROOT, "spec")
    for k, (name, old, new, fam) in enumerate(muts):
        d = os.path.join(work, "specmut%d" % k)
        os.makedirs(d)
        for f in os.listdir(src):
            if f.endswith(".tla") or f.startswith("MC_LPWrite"):
                shutil.copy(os.path.join(src, f), d)
        hit = False
        for mod in ("LPWrite.tla", "MPSWrite.tla"):
            t = open(os.path.join(d, mod)).read()
            if old in t:
                hit = True
                open(os.path.join(d, mod), "w").write(t.replace(old, new, 1))
        r = subprocess.run([pipeline.TLCX, "-workers", "4", "-metadir", os.path.join(d, "meta"), "-config", "MC_LPWrite_%s.cfg" % fam, "MC_LPWrite.tla"],
                           cwd=d, stdout=subprocess.PIPE, stderr=subprocess.STDOUT, text=True, timeout=900)
        m = re.search(r"Invariant (\w+) is violated", r.stdout)
        res.append(dict(trace="MC_LPWrite/" + fam, tampering="model mutation: " + name, expected_property="C08", rejected=bool(hit and m), verdict=(m.group(0) if m else None)))
        shutil.rmtree(d, ignore_errors=True)
    # the column-store model: a transcription slip of the kind a code change would make must violate MC_ColStore
    cmuts = [("delrows does not mark a column it emptied", 'IN IF f.cnt[j] = 0 THEN Mark(f, f.beg[j], 1) ELSE f', 'IN f'),
             ("appending in place at the end of the used space forgets matfree--", '!.free = IF k = s.cap - s.free THEN @ - 1 ELSE @]', '!.free = @]'),
             ("a column added without entries does not get the dummy mark", 'THEN [Mark(g, at, 1) EXCEPT', 'THEN [g EXCEPT')]
    for k, (name, old, new) in enumerate(cmuts):
        d = os.path.join(work, "csmut%d" % k)
        os.makedirs(d)
        for f in ("ColStore.tla", "MC_ColStore.tla", "MC_ColStore_quick.cfg"):
            shutil.copy(os.path.join(src, f), d)
        t = open(os.path.join(d, "ColStore.tla")).read()
        hit = old in t
        open(os.path.join(d, "ColStore.tla"), "w").write(t.replace(old, new, 1))
        r = subprocess.run([pipeline.TLCX, "-workers", "4", "-metadir", os.path.join(d, "meta"), "-config", "MC_ColStore_quick.cfg", "MC_ColStore.tla"],
                           cwd=d, stdout=subprocess.PIPE, stderr=subprocess.STDOUT, text=True, timeout=900)
        m = re.search(r"Invariant (\w+) is violated", r.stdout)
        res.append(dict(trace="MC_ColStore", tampering="model mutation: " + name, expected_property="C06", rejected=bool(hit and m), verdict=(m.group(0) if m else None)))
        shutil.rmtree(d, ignore_errors=True)
    return res


def main():
    work = tempfile.mkdtemp(prefix="selftest_", dir=os.path.join(ROOT, "out") if os.path.isdir(os.path.join(ROOT, "out")) else None)
    res = dict(clean=[], tampered=[], ok=True)
    try:
        b = build.build("plain")
        evs, info = pipeline.run_driver(b["qsx"], SCEN, work, "st", ["C17"])
        # same post-processing as Ctx.conform: content of written basis files
        out = []
        for e in evs:
            out.append(e)
            if e["call"] == "write_basis" and e.get("rval") == 0:
                out.append(dict(call="basis_file", h=e["h"], b=e["b"], file=e["file"], lines=pipeline.read_basis_file(os.path.join(work, e["file"]))))
        evs = pipeline.renumber(pipeline.add_lp_text(out, work))
        summ, verd = pipeline.validate(evs, work, "clean", heap="2g")
        res["clean"].append(dict(trace="qsx", events=len(evs), verdicts=[v["why"] for v in verd]))
        if verd:
            res["ok"] = False
        for k, (name, prop, e2) in enumerate(tamperings(evs) + tamper_basis_file(evs) + tamper_lp_text(evs)):
            summ, verd = pipeline.validate(e2, work, "t%d" % k, heap="2g")
            hit = [v for v in verd if prop in v["props"]]
            res["tampered"].append(dict(trace="qsx", tampering=name, expected_property=prop, rejected=bool(hit), verdict=(hit[0]["why"][:200] if hit else None)))
            if not hit:
                res["ok"] = False
        for t in model_mutations(work):
            res["tampered"].append(t)
            if not t["rejected"]:
                res["ok"] = False
        # LU component
        import factor
        evs, info = pipeline.run_driver(b["facx"], LU, work, "lu", ["C13"])
        evs = pipeline.renumber(factor.add_witnesses(evs))
        summ, verd = pipeline.validate(evs, work, "luclean", spec="TraceFactor", heap="2g")
        res["clean"].append(dict(trace="facx", events=len(evs), verdicts=[v["why"] for v in verd]))
        if verd:
            res["ok"] = False
        lut = []
        e2 = copy.deepcopy(evs); i = first(e2, "ftran", 2); e2[i]["x"][0]["v"] = "7"; lut.append(("one entry of a forward solve is changed", e2))
        e2 = copy.deepcopy(evs); i = first(e2, "btran", 3); e2[i]["x"] = e2[i]["x"][:-1]; lut.append(("one entry of a backward solve is dropped", e2))
        e2 = copy.deepcopy(evs); e2.pop(first(e2, "update")); lut.append(("a column replacement is dropped from the trace", e2))
        for k, (name, e3) in enumerate(lut):
            summ, verd = pipeline.validate(pipeline.renumber(e3), work, "lut%d" % k, spec="TraceFactor", heap="2g")
            hit = [v for v in verd if "C13" in v["props"] or "HARNESS" in v["props"]]
            res["tampered"].append(dict(trace="facx", tampering=name, expected_property="C13", rejected=bool(hit), verdict=(hit[0]["why"][:200] if hit else None)))
            if not hit:
                res["ok"] = False
    finally:
        shutil.rmtree(work, ignore_errors=True)
    os.makedirs(os.path.join(ROOT, "evidence"), exist_ok=True)
    json.dump(res, open(os.path.join(ROOT, "evidence", "selftest.json"), "w"), indent=1)
    for t in res["tampered"]:
        print("%-8s %-70s %s" % (t["trace"], t["tampering"], "rejected (%s)" % t["expected_property"] if t["rejected"] else "ACCEPTED - binding broken"))
    print("selftest", "ok" if res["ok"] else "FAILED")
    return 0 if res["ok"] else 1


if __name__ == "__main__":
    sys.exit(main())
