"""driver execution, trace cooking, TLC trace validation"""
import re
import json, os, subprocess, sys, time, shutil, tempfile, re

VERIF = os.path.dirname(os.path.dirname(os.path.abspath(__file__)))
SPEC = os.path.join(VERIF, "spec")
TLCX = os.path.join(VERIF, "bin", "tlcx")
READERS = {"read_prob", "read_basis", "read_and_load_basis", "readnum"}


def ensure_java():
    out = os.path.join(VERIF, ".cache", "java")
    srcs = [os.path.join(VERIF, "java", f) for f in ("BigRat.java", "VerifOverrides.java")]
    stamp = os.path.join(out, "BigRat.class")
    if os.path.exists(stamp) and all(os.path.getmtime(stamp) >= os.path.getmtime(s) for s in srcs):
        return
    os.makedirs(out, exist_ok=True)
    r = subprocess.run(["javac", "-nowarn", "-cp", "/opt/veriftools/tla/tla2tools.jar", "-d", out] + srcs,
                       stdout=subprocess.PIPE, stderr=subprocess.STDOUT, text=True)
    if r.returncode:
        raise RuntimeError("javac failed:\n" + r.stdout)


def split_scenarios(text):
    """scenario text -> list of (id, text) blocks; a block starts with a line 'scenario <id>'"""
    blocks, cur, cid = [], [], None
    for line in text.splitlines():
        if line.startswith("scenario "):
            if cur:
                blocks.append((cid, "\n".join(cur) + "\n"))
            cur, cid = [line], line.split()[1]
        else:
            cur.append(line)
    if cur:
        blocks.append((cid, "\n".join(cur) + "\n"))
    return blocks


def memcheck_summary(logfile):
    """summarise a valgrind memcheck log: number of error reports, their kinds, the first library frames"""
    kinds, sites, n = {}, [], 0
    try:
        txt = open(logfile, errors="replace").read()
    except OSError:
        return dict(errors=-1, kinds="", sites="no log")
    blocks = re.split(r"\n==\d+== \n", "\n" + txt)
    for b in blocks:
        m = re.search(r"==\d+== (Invalid (?:read|write|free)[^\n]*|Conditional jump or move depends on uninitialised value\(s\)|Use of uninitialised value[^\n]*|"
                      r"Syscall param[^\n]*|Source and destination overlap[^\n]*|Mismatched free[^\n]*|Jump to the invalid address[^\n]*|Process terminating[^\n]*)", b)
        if not m:
            continue
        n += 1
        k = m.group(1).split(" of size")[0]
        kinds[k] = kinds.get(k, 0) + 1
        fr = [f for f in re.findall(r"(?:at|by) 0x[0-9A-F]+: (\S+)", b) if not f.startswith(("__gmp", "mem", "str", "malloc", "calloc", "realloc", "free"))]
        if fr and len(sites) < 6:
            sites.append("<".join(fr[:3]))
    return dict(errors=n, kinds="; ".join("%s x%d" % kv for kv in sorted(kinds.items())), sites=" | ".join(sites))


def run_driver(qsx, scen_text, workdir, tag, crash_props, call_timeout=60, wall=1800, env=None, one_per_process=False, wrapper=None):
    """run all scenario blocks; restart after a crash with the remaining blocks.
    returns (events, info) - events: list of cooked event dicts"""
    os.makedirs(workdir, exist_ok=True)
    blocks = split_scenarios(scen_text)
    events, crashes, nproc = [], [], 0
    i = 0
    t0 = time.time()
    while i < len(blocks):
        nproc += 1
        sf = os.path.join(workdir, "%s.%d.scen" % (tag, nproc))
        tf = os.path.join(workdir, "%s.%d.trace" % (tag, nproc))
        with open(sf, "w") as f:
            f.write("".join(b[1] for b in (blocks[i:i + 1] if one_per_process else blocks[i:])))
        e = dict(os.environ)
        e["QSX_CALL_TIMEOUT"] = str(call_timeout)
        if env:
            e.update(env)
        cmd = [qsx, sf, tf, tf + ".out", tf + ".err"]
        if wrapper == "valgrind":
            # memcheck on the plain build (C17: uninitialised reads that influence a result are invisible to ASan)
            cmd = ["valgrind", "-q", "--error-exitcode=0", "--num-callers=12", "--log-file=" + tf + ".vg"] + cmd
            e["QSX_CALL_TIMEOUT"] = str(max(call_timeout * 20, 600))
        # the driver's own per-call watchdog decides hangs; the wall limit of the whole process is only a safety net and grows with the
        # number of scenarios the process has to run (exit -99 = this net: treated like a watchdog expiry and re-run, never a verdict by itself)
        nleft = 1 if one_per_process else len(blocks) - i
        try:
            r = subprocess.run(cmd, cwd=workdir, env=e, timeout=max(wall, 15 * nleft),
                               stdout=subprocess.DEVNULL, stderr=subprocess.DEVNULL)
            rc = r.returncode
        except subprocess.TimeoutExpired:
            rc = -99
        evs, crashed, nscen = cook(tf, crash_props, rc)
        events.extend(evs)
        if wrapper == "valgrind":
            events.append(dict(call="memcheck", **memcheck_summary(tf + ".vg")))
        if crashed is None:
            if rc != 0:
                raise RuntimeError("driver exit %s without crash record (%s)" % (rc, tf))
            if one_per_process:
                i += 1
                continue
            if 0 < nscen < len(blocks) - i:
                i += nscen          # the process ended early (a scenario called shutdown): go on with the rest
                continue
            break
        crashes.append(crashed)
        # continue after the scenario block in which the crash happened
        i += max(nscen, 1)
    return events, dict(processes=nproc, crashes=crashes, wall=time.time() - t0)


def cook(tracefile, crash_props, rc):
    """raw trace -> (E events [+ CRASH event], crash-info or None, number of scenario blocks started)"""
    evs, started, crashed, nscen = [], None, None, 0
    if not os.path.exists(tracefile):
        return evs, dict(call="?", why="no trace"), 1
    with open(tracefile, errors="replace") as f:
        for line in f:
            line = line.strip()
            if not line:
                continue
            try:
                d = json.loads(line)
            except ValueError:
                continue  # torn last line
            k = d.get("k")
            if k == "S":
                started = d
            elif k == "E":
                if d.get("call") == "scenario":
                    nscen += 1
                started = None
                d.pop("k", None)
                evs.append(d)
            elif k == "X":
                why = "signal %s" % d.get("sig") if d.get("kind") == "signal" else d.get("msg", "driver")
                if d.get("kind") == "driver":
                    raise RuntimeError("driver error: %s (%s)" % (d, tracefile))
                if d.get("sig") == 14:
                    why = "timeout (call did not return)"
                crashed = dict(call=d.get("call"), n=d.get("n"), why=why)
    if crashed is None and started is not None:
        crashed = dict(call=started["call"], n=started["n"], why="process died (exit %s)" % rc)
    if crashed is not None:
        props = list(crash_props)
        if crashed["call"] in READERS and "C11" not in props:
            props.append("C11")
        evs.append(dict(n=crashed["n"], call="CRASH", of=crashed["call"], why="%s in %s" % (crashed["why"], crashed["call"]), props=props))
    return evs, crashed, nscen


def renumber(events):
    for i, e in enumerate(events):
        e["n"] = i + 1
    return events


def validate(events, workdir, tag, spec="Trace", heap="8g", timeout=10800):
    """run TLC trace validation; returns (summary, verdicts). raises on tool failure"""
    ensure_java()
    os.makedirs(workdir, exist_ok=True)
    tf = os.path.join(workdir, tag + ".cooked.ndjson")
    vf = os.path.join(workdir, tag + ".verdict.ndjson")
    with open(tf, "w") as f:
        for e in events:
            f.write(json.dumps(e, separators=(",", ":")) + "\n")
    if os.path.exists(vf):
        os.remove(vf)
    meta = tempfile.mkdtemp(prefix="tlc_", dir=workdir)
    env = dict(os.environ, TRACE=tf, VERDICT=vf, VERIF_JAVA_OPTS="-Xss512m")
    cmd = [TLCX, "-heap", heap, "-workers", "1", "-metadir", meta, "-config", spec + ".cfg", spec + ".tla"]
    t0 = time.time()
    try:
        r = subprocess.run(cmd, cwd=SPEC, env=env, timeout=timeout, stdout=subprocess.PIPE, stderr=subprocess.STDOUT, text=True)
        out, rc = r.stdout, r.returncode
    except subprocess.TimeoutExpired as ex:
        out, rc = (ex.stdout or b"").decode(errors="replace") if isinstance(ex.stdout, bytes) else (ex.stdout or ""), -99
    shutil.rmtree(meta, ignore_errors=True)
    logf = os.path.join(workdir, tag + ".tlc.log")
    open(logf, "w").write(out)
    if not os.path.exists(vf):
        raise RuntimeError("TLC produced no verdict (rc=%s); see %s\n%s" % (rc, logf, out[-3000:]))
    lines = [json.loads(x) for x in open(vf) if x.strip()]
    summary = lines[0]
    if summary.get("consumed") != len(events):
        raise RuntimeError("TLC consumed %s of %s events; see %s" % (summary.get("consumed"), len(events), logf))
    m = re.search(r"(\d+) states generated, (\d+) distinct states found", out)
    summary["tlc_states"] = int(m.group(2)) if m else 0
    summary["tlc_wall"] = time.time() - t0
    return summary, lines[1:]


def _read_text_file(path, limit=400000):
    try:
        with open(path, "rb") as f:
            raw = f.read(limit + 1)
        if len(raw) > limit:
            return None
        if raw[:2] == b"\x1f\x8b":
            import gzip
            raw = gzip.decompress(raw)
        elif raw[:3] == b"BZh":
            import bz2
            raw = bz2.decompress(raw)
    except (OSError, EOFError, ValueError):
        return None
    return raw.decode("latin-1")


def read_mps_content(path):
    """structured content of an MPS file the library wrote (trusted reader of the writer's own fixed layout): objsense, objname, rows,
    columns with their entries (objective entry first, the others in the order of the ROWS section - the storage order inside a column is
    not observable through the API), integer marks from the INTORG/INTEND markers, rhs, ranges, bounds.  None for files with SOS sets or a
    REFROW section (not modelled), or when anything unexpected shows up (then nothing is compared)."""
    text = _read_text_file(path)
    if text is None:
        return None
    sec, objsense, objname = None, "", ""
    rows, cols, rhs, ranges, bounds, order = [], [], [], [], [], {}
    inint = False
    for line in text.split("\n"):
        if not line.strip() or line.startswith("*"):
            continue
        tk = line.split()
        if not line[0].isspace():
            sec = tk[0]
            if sec in ("REFROW",):
                return None
            continue
        if sec == "OBJSENSE":
            objsense = tk[0]
        elif sec == "OBJNAME":
            objname = tk[0]
        elif sec == "ROWS":
            if len(tk) != 2:
                return None
            if tk[0] == "N":
                if tk[1] != objname:
                    return None
                order[tk[1]] = -1
            else:
                order[tk[1]] = len(rows)
                rows.append(dict(t=tk[0], name=tk[1]))
        elif sec == "COLUMNS":
            if len(tk) >= 3 and tk[-2] == "'MARKER'":
                if tk[-1] == "'INTORG'":
                    inint = True
                elif tk[-1] == "'INTEND'":
                    inint = False
                else:
                    return None          # SOS markers
                continue
            if len(tk) != 3 or tk[1] not in order:
                return None
            if not cols or cols[-1]["col"] != tk[0]:
                cols.append(dict(col=tk[0], integer=inint, ent=[]))
            cols[-1]["ent"].append(dict(row=tk[1], val=tk[2]))
        elif sec == "RHS":
            if len(tk) != 3:
                return None
            rhs.append(dict(row=tk[1], val=tk[2]))
        elif sec == "RANGES":
            if len(tk) != 3:
                return None
            ranges.append(dict(row=tk[1], val=tk[2]))
        elif sec == "BOUNDS":
            if len(tk) not in (3, 4):
                return None
            bounds.append(dict(t=tk[0], col=tk[2], val=tk[3] if len(tk) == 4 else ""))
        elif sec in ("NAME", "ENDATA"):
            pass
        else:
            return None
    for c in cols:
        c["ent"].sort(key=lambda e: order[e["row"]])
    return dict(objsense=objsense, objname=objname, rows=rows, cols=cols, rhs=rhs, ranges=ranges, bounds=bounds)


def read_lp_tokens(path, limit=400000):
    """blank-separated tokens of an LP-format file the library wrote (plain, gzip or bzip2 by magic bytes), comments (backslash to end
    of line) removed, starting at Minimize/Maximize (the optional Problem section is skipped); an Integer keyword with no
    variable after it is dropped (the writer prints the keyword whenever the marker array exists).  Trusted lexer; None when the
    file is missing or too large to be worth comparing."""
    try:
        with open(path, "rb") as f:
            raw = f.read(limit + 1)
        if len(raw) > limit:
            return None
        if raw[:2] == b"\x1f\x8b":
            import gzip
            raw = gzip.decompress(raw)
        elif raw[:3] == b"BZh":
            import bz2
            raw = bz2.decompress(raw)
    except (OSError, EOFError, ValueError):
        return None
    toks = []
    for line in raw.decode("latin-1").split("\n"):
        toks += line.split("\\", 1)[0].split()
    for k, t in enumerate(toks):
        if t in ("Minimize", "Maximize"):
            toks = toks[k:]
            break
    else:
        return None
    if len(toks) >= 2 and toks[-2] == "Integer" and toks[-1] == "End":
        del toks[-2]
    return toks


def add_lp_text(evs, workdir):
    out = []
    for e in evs:
        out.append(e)
        if e["call"] == "write_prob" and e.get("rval") == 0 and e.get("type") == "LP" and "objname" in e:
            toks = read_lp_tokens(os.path.join(workdir, e["file"]))
            if toks is not None and len(toks) <= 6000:
                out.append(dict(call="lp_text", h=e["h"], file=e["file"], objname=e["objname"], tokens=toks))
        if e["call"] == "write_prob" and e.get("rval") == 0 and e.get("type") == "MPS":
            tree = read_mps_content(os.path.join(workdir, e["file"]))
            if tree is not None and sum(len(c["ent"]) for c in tree["cols"]) <= 3000:
                out.append(dict(call="mps_text", h=e["h"], file=e["file"], tree=tree))
    return out


def read_basis_file(path):
    """tokenise a basis file: list of {t, c, r} records between NAME and ENDATA (trusted lexer)"""
    out = []
    try:
        with open(path, errors="replace") as f:
            for line in f:
                tk = line.split()
                if not tk or tk[0] in ("NAME", "ENDATA"):
                    continue
                out.append(dict(t=tk[0], c=tk[1] if len(tk) > 1 else "", r=tk[2] if len(tk) > 2 else ""))
    except OSError:
        return [dict(t="UNREADABLE", c="", r="")]
    return out
