"""bin/check <ID> --tier quick|thorough [--replay PATH]

Per property: build /repo's working tree, run the TLC model-checking instances of the property,
generate scenarios (TLC-generated and seeded), execute them with the driver, validate the traces with
TLC against the specification, filter the verdicts by property, match known findings, write
evidence, print VIOLATION / KNOWN-FINDING lines.

exit 0: property held on everything explored (possibly KNOWN-FINDING lines)
exit 1: violation (VIOLATION property=<id> replay=<path>)
exit 2: tooling failure / inconclusive
"""
import sys as _sys
_sys.set_int_max_str_digits(0)      # exact rationals with thousands of digits are ordinary data here
import argparse, json, os, random, re, shutil, subprocess, sys, time, glob, hashlib

VERIF = os.path.dirname(os.path.dirname(os.path.abspath(__file__)))
sys.path.insert(0, os.path.join(VERIF, "lib"))
sys.path.insert(0, os.path.join(VERIF, "gen"))
import build as buildmod
import pipeline

SPEC = os.path.join(VERIF, "spec")
# VERIF_SCRATCH redirects out/, evidence/ and replay/ (used when trying seeded changes in a scratch worktree
# with VERIF_REPO=<worktree>, so that the registered evidence is never overwritten by such runs)
ROOT = os.environ.get("VERIF_SCRATCH", VERIF)
OUT = os.path.join(ROOT, "out")
NCPU = 16


class ToolFailure(Exception):
    pass


# fields of a trace record that are results / observations, not inputs of the call
RESULT_FIELDS = {"n", "k", "res", "out", "err", "msgs", "hon", "rval", "ok", "status", "x", "y", "pi", "rc", "slack", "objval", "hook", "hook_over", "bout", "bin",
                 "rv_status", "rv_objval", "rv_x", "rv_pi", "rv_rc", "rv_slack", "rv_gs", "gs", "rv_nx", "nx", "rv_nrc", "nrc", "rv_npi", "npi", "rv_nsl", "nsl", "rv_ba", "cstat", "rstat",
                 "result", "dobjval", "leak", "sites", "idx", "v", "used", "rows2", "cols2", "lines", "exit", "exit2", "status2", "val2", "vars", "errors", "kinds",
                 "rv_order", "order", "binv", "tab", "nsing", "srows", "scols", "etas", "etas2", "refact", "etamax"}


class Ctx:
    def __init__(self, prop, tier, seed):
        self.distinct = {}    # call kind -> set of digests of distinct (input history, inputs) cases
        self.prop, self.tier, self.seed = prop, tier, seed
        self.quick = tier == "quick"
        self.dir = os.path.join(OUT, prop)
        shutil.rmtree(self.dir, ignore_errors=True)
        os.makedirs(self.dir)
        self.t0 = time.time()
        self.mc = []          # model-checking runs: dict(spec,cfg,states,distinct,depth,wall)
        self.traces = 0       # scenarios validated against the implementation
        self.events = 0
        self.tlc_trace_states = 0
        self.verdicts = []    # all verdicts (dict with scenario text attached)
        self.cnt = {}
        self.samples = []
        self.notes = []
        self.nontrivial = set()
        self.builds = {}
        self.crashes = 0
        self.inconclusive = 0

    def build(self, variant):
        if variant not in self.builds:
            try:
                self.builds[variant] = buildmod.build(variant)
            except RuntimeError as e:
                raise ToolFailure("build of /repo failed (%s): %s" % (variant, str(e)[:2000]))
        return self.builds[variant]

    def rng(self, salt=""):
        return random.Random("%s/%s/%s" % (self.seed, self.prop, salt))

    # ------------------------------------------------------------------ TLC model checking
    def tlc(self, spec, cfg, workers=NCPU, timeout=1500, heap="16g", env=None, extra=(), must_pass=True, simulate=None):
        pipeline.ensure_java()
        meta = os.path.join(self.dir, "meta_%s_%s" % (spec, cfg.replace(".cfg", "")))
        shutil.rmtree(meta, ignore_errors=True)
        cmd = [pipeline.TLCX, "-heap", heap, "-workers", str(workers), "-metadir", meta, "-config", cfg]
        if simulate:
            cmd += ["-simulate", simulate]
        cmd += list(extra) + [spec + ".tla"]
        e = dict(os.environ)
        if env:
            e.update(env)
        t0 = time.time()
        try:
            r = subprocess.run(cmd, cwd=SPEC, env=e, timeout=timeout, stdout=subprocess.PIPE, stderr=subprocess.STDOUT, text=True)
            out, rc = r.stdout, r.returncode
        except subprocess.TimeoutExpired as ex:
            out = ex.stdout.decode(errors="replace") if isinstance(ex.stdout, bytes) else (ex.stdout or "")
            rc = -99
        shutil.rmtree(meta, ignore_errors=True)
        for f in glob.glob(os.path.join(SPEC, "*_TTrace_*")):
            os.remove(f)
        log = os.path.join(self.dir, "%s_%s.log" % (spec, cfg.replace(".cfg", "")))
        open(log, "w").write(out)
        m = re.findall(r"(\d+) states generated, (\d+) distinct states found", out)
        gen, dist = (int(m[-1][0]), int(m[-1][1])) if m else (0, 0)
        d = re.search(r"depth of the complete state graph search is (\d+)", out)
        res = dict(spec=spec, cfg=cfg, generated=gen, distinct=dist, depth=int(d.group(1)) if d else 0,
                   wall=round(time.time() - t0, 1), rc=rc, log=log)
        if simulate is None:
            self.mc.append(res)
        if must_pass:
            if rc == -99:
                raise ToolFailure("TLC timed out on %s/%s" % (spec, cfg))
            if rc != 0 or "No error has been found" not in out and simulate is None:
                # an invariant violation of a MODEL (not of the code) is a failure of the machinery
                raise ToolFailure("TLC reports an error on %s/%s (rc=%s), see %s\n%s" % (spec, cfg, rc, log, out[-1500:]))
        return res

    # ------------------------------------------------------------------ conformance
    def conform(self, scen_text, tag, variant="plain", crash_props=None, call_timeout=60, chunk=4000, env=None, spec="Trace", inject=None, par=NCPU, files=None, one_per_process=False, post=None, driver="qsx", wrapper=None, _retry=False):
        """run scenarios (text with 'scenario <id>' blocks) on the driver, validate, collect verdicts.
        The scenario blocks are split into chunks that are executed and validated in parallel."""
        from concurrent.futures import ThreadPoolExecutor
        b = self.build(variant)
        pipeline.ensure_java()
        blocks = pipeline.split_scenarios(scen_text)
        if not blocks:
            return
        byid = {bid: txt for bid, txt in blocks}
        crash_props = crash_props or [self.prop, "C17"]
        for name, data in (files or {}).items():
            with open(os.path.join(self.dir, name), "wb") as f:
                f.write(data if isinstance(data, bytes) else data.encode())
        nchunks = max(1, min(par, (len(blocks) + 3) // 4), (len(blocks) + chunk - 1) // chunk)
        size = (len(blocks) + nchunks - 1) // nchunks
        parts = [blocks[i:i + size] for i in range(0, len(blocks), size)]

        def work(arg):
            ci, part = arg
            txt = "".join(t for _, t in part)
            ctag = "%s_%d" % (tag, ci)
            evs, info = pipeline.run_driver(b[driver], txt, self.dir, ctag, crash_props, call_timeout=call_timeout, env=env, one_per_process=one_per_process, wrapper=wrapper)
            if post:
                evs = post(evs, part, ctag)
            if inject:
                # untrusted witnesses (verified by TLC) are inserted after the first dump of their scenario
                out, cur, done = [], None, set()
                for e in evs:
                    out.append(e)
                    if e["call"] == "scenario":
                        cur = e["id"]
                    elif e["call"] == "dump" and cur in inject and cur not in done and e.get("h") == inject[cur].get("h"):
                        out.append(dict(inject[cur]))
                        done.add(cur)
                evs = out
            # the content of every basis file the library wrote becomes an event of its own (C14: file = Write(B))
            if any(e["call"] == "write_basis" for e in evs):
                out = []
                for e in evs:
                    out.append(e)
                    if e["call"] == "write_basis" and e.get("rval") == 0:
                        out.append(dict(call="basis_file", h=e["h"], b=e["b"], file=e["file"], lines=pipeline.read_basis_file(os.path.join(self.dir, e["file"]))))
                evs = out
            # the tokens / content of every LP / MPS file the library wrote become an event (binding of spec/LPWrite.tla, MPSWrite.tla to the writers)
            if any(e["call"] == "write_prob" for e in evs):
                evs = pipeline.add_lp_text(evs, self.dir)
            pipeline.renumber(evs)
            summ, verdicts = pipeline.validate(evs, self.dir, ctag, spec=spec, heap="3g")
            return part, evs, info, summ, verdicts

        try:
            with ThreadPoolExecutor(min(par, len(parts))) as ex:
                results = list(ex.map(work, enumerate(parts)))
        except RuntimeError as e:
            raise ToolFailure(str(e))
        slow = []
        for part, evs, info, summ, verdicts in results:
            self.crashes += len(info["crashes"])
            self.traces += summ["cnt"].get("scenarios", 0)
            self.events += len(evs)
            self.tlc_trace_states += summ.get("tlc_states", 0)
            for k, v in summ["cnt"].items():
                self.cnt[k] = self.cnt.get(k, 0) + v
            sid_at, cur = [], None
            hd = {}          # handle -> rolling digest of the INPUTS of all calls on it in this scenario (scenario names do not enter)
            for e in evs:
                if e["call"] == "scenario":
                    cur = e["id"]
                    hd = {}
                sid_at.append(cur)
                # distinct cases: a case is (history of call inputs on the handle so far, this call's inputs); identical histories in
                # differently named scenarios count once
                if e["call"] not in ("scenario", "handler", "CRASH", "memcheck"):
                    hk = e.get("h") or e.get("b") or "-"
                    inp = {k: v for k, v in e.items() if k not in RESULT_FIELDS}
                    dg = hashlib.sha1((hd.get(hk, "") + json.dumps(inp, sort_keys=True, default=str)).encode()).hexdigest()
                    hd[hk] = dg
                    self.distinct.setdefault(e["call"], set()).add(dg)
            for v in verdicts:
                sid = sid_at[v["n"] - 1] if 0 < v["n"] <= len(sid_at) else None
                v["scenario"] = sid
                v["scen_text"] = byid.get(sid, "")
                ce = evs[v["n"] - 1] if 0 < v["n"] <= len(evs) else {}
                if ce.get("call") == "CRASH" and "signal" in ce.get("why", "") and not one_per_process:
                    # a crash may depend on what the earlier scenarios of the same process left behind: the replay file gets
                    # every scenario this chunk ran before it as well
                    ids = [bid for bid, _ in part]
                    if sid in ids:
                        v["scen_text"] = "".join(txt for _, txt in part[:ids.index(sid) + 1])
                v["variant"] = variant
                v["how"] = dict(driver=driver, spec=spec, wrapper=wrapper, env=env, one_per_process=one_per_process, dir=self.dir,
                                post=("witnesses" if post is not None else None))
                v["event"] = evs[v["n"] - 1] if 0 < v["n"] <= len(evs) else {}
                if inject and sid in inject:
                    v["witness"] = inject[sid]
                if "INCONCLUSIVE" in v["props"]:
                    self.inconclusive += 1
                if v["event"].get("call") == "CRASH" and ("timeout" in v["event"].get("why", "") or "exit -99" in v["event"].get("why", "")) and not _retry and sid in byid:
                    slow.append(sid)          # watchdog expiry: decided by a second run with a five times longer watchdog
                    continue
                self.verdicts.append(v)
            if len(self.samples) < 3 and evs:
                self.samples.append({"scenario": part[0][0], "script": part[0][1][:1200]})
        if slow:
            # a call that did not return within the watchdog is reported only if it does not return within 5x the time either
            # (a loaded machine must not turn a slow solve into an alarm; real hangs stay hangs)
            self.slow_retries = getattr(self, "slow_retries", 0) + len(set(slow))
            self.conform("".join(byid[x] for x in dict.fromkeys(slow)), tag + "_retry", variant=variant, crash_props=crash_props, call_timeout=call_timeout * 5,
                         chunk=1, env=env, spec=spec, inject=inject, par=par, files=None, one_per_process=True, post=post, driver=driver, wrapper=wrapper, _retry=True)
        return


# ---------------------------------------------------------------------------------------------
# known findings
# ---------------------------------------------------------------------------------------------
def load_known():
    p = os.path.join(VERIF, "KNOWN_FINDINGS.json")
    if not os.path.exists(p):
        return dict(known=[], fixed=[])
    return json.load(open(p))


def match_known(v, prop, known):
    for k in known.get("known", []):
        if k["property"] != prop:
            continue
        sig = k["signature"]
        if "call" in sig and sig["call"] != v.get("call") and sig["call"] != v.get("event", {}).get("of"):
            continue
        if "why" in sig and not re.search(sig["why"], v.get("why", "")):
            continue
        if "scenario" in sig and not re.search(sig["scenario"], v.get("scenario") or ""):
            continue
        if "event" in sig:
            ev = v.get("event", {})
            if any(ev.get(kk) != vv for kk, vv in sig["event"].items()):
                continue
        return k
    return None


# ---------------------------------------------------------------------------------------------
def finish(ctx, level, rule, extra_cov=None, assumptions=None):
    prop = ctx.prop
    known = load_known()
    mine = [v for v in ctx.verdicts if prop in v["props"]]
    incon = [v for v in ctx.verdicts if "INCONCLUSIVE" in v["props"]]
    new, kn = [], {}
    for v in mine:
        k = match_known(v, prop, known)
        if k:
            kn.setdefault(k["id"], (k, []))[1].append(v)
        else:
            new.append(v)
    rdir = os.path.join(ROOT, "replay", prop)
    lines = []
    for kid, (k, vs) in kn.items():
        lines.append("KNOWN-FINDING: property=%s %s [%s; %d occurrence(s) this run]" % (prop, k["text"], kid, len(vs)))
    seen = set()
    nrep = 0
    if new:
        os.makedirs(rdir, exist_ok=True)
    for v in new:
        key = (v["call"], re.sub(r"\d+", "#", v["why"])[:100], v.get("event", {}).get("of"))
        if key in seen:
            continue
        seen.add(key)
        nrep += 1
        if nrep > 25:
            continue
        hid = hashlib.sha1((v.get("scen_text", "") + v["why"]).encode()).hexdigest()[:10]
        path = os.path.join(rdir, "%s.scen" % hid)
        with open(path, "w") as f:
            f.write(v.get("scen_text") or "")
        how = dict(v.get("how") or {})
        wdir = how.pop("dir", None)
        # input files the scenario names (generated LP / MPS / basis files): kept next to the scenario so that the replay is self-contained
        fdir = path + ".files"
        shutil.rmtree(fdir, ignore_errors=True)
        if wdir:
            for tok in sorted(set(re.findall(r"[^\s]+", v.get("scen_text") or ""))):
                src = os.path.join(wdir, tok)
                if "/" not in tok and os.path.isfile(src) and os.path.getsize(src) < 8 << 20 and re.search(r"\.(lp|mps|bas|gz|bz2|txt|sol)$|^[A-Za-z0-9_.-]+$", tok):
                    os.makedirs(fdir, exist_ok=True)
                    shutil.copy(src, os.path.join(fdir, tok))
        with open(path + ".json", "w") as f:
            json.dump(dict(property=prop, n=v["n"], call=v["call"], why=v["why"], scenario=v.get("scenario"),
                           variant=v.get("variant"), how=how, event=v.get("event"), witness=v.get("witness")), f, indent=1, default=str)
        lines.append("VIOLATION property=%s replay=%s" % (prop, path))
        lines.append("  at event %s (%s) of scenario %s: %s" % (v["n"], v["call"], v.get("scenario"), v["why"][:600]))
    # prune old replays
    if os.path.isdir(rdir):
        fs = sorted(glob.glob(os.path.join(rdir, "*.scen")), key=os.path.getmtime, reverse=True)
        for f in fs[50:]:
            os.remove(f)
            if os.path.exists(f + ".json"):
                os.remove(f + ".json")
            shutil.rmtree(f + ".files", ignore_errors=True)
    states = sum(m["distinct"] for m in ctx.mc) + ctx.tlc_trace_states
    trans = sum(m["generated"] for m in ctx.mc) + ctx.events
    cov = dict(states=states, transitions=trans, traces_validated_against_impl=ctx.traces,
               evaluations=ctx.events, distinct_nontrivial=len(ctx.nontrivial) if ctx.nontrivial else max(ctx.traces, 0),
               rule=rule, samples=ctx.samples[:3] or [{"note": "no scenario executed"}],
               model_checking=ctx.mc, counters=ctx.cnt, crashes=ctx.crashes, inconclusive_witnesses=ctx.inconclusive,
               known_findings=[kid for kid in kn], notes=ctx.notes,
               distinct_cases_by_call={k: len(v) for k, v in sorted(ctx.distinct.items())},
               spec_drift=sorted({"%s: %s" % (v["call"], v["why"][:160]) for v in ctx.verdicts if "SPEC-DRIFT" in v["props"]})[:20],
               spec_drift_count=sum(1 for v in ctx.verdicts if "SPEC-DRIFT" in v["props"]),
               harness_verdicts=sum(1 for v in ctx.verdicts if "HARNESS" in v["props"]),
               watchdog_retries=getattr(ctx, "slow_retries", 0))
    if extra_cov:
        cov.update(extra_cov)
    ev = dict(property_id=prop, tier=ctx.tier, seed=ctx.seed, level=level, coverage=cov,
              assumptions=assumptions or [], wall_s=round(time.time() - ctx.t0, 1), violations=len(new))
    os.makedirs(os.path.join(ROOT, "evidence"), exist_ok=True)
    with open(os.path.join(ROOT, "evidence", prop + ".json"), "w") as f:
        json.dump(ev, f, indent=1, default=str)
    for ln in lines:
        print(ln)
    print("%s %s: %d scenarios, %d events validated, %d MC runs (%d distinct states), %d verdicts for this property (%d new, %d known), %.0fs"
          % (prop, ctx.tier, ctx.traces, ctx.events, len(ctx.mc), sum(m["distinct"] for m in ctx.mc), len(mine), len(new), len(mine) - len(new), time.time() - ctx.t0))
    if ctx.traces and ctx.inconclusive > max(3, 0.2 * max(1, ctx.cnt.get("witnesses", 0))):
        print("INCONCLUSIVE: %d witnesses did not verify" % ctx.inconclusive)
        return 2
    return 1 if new else 0


def main():
    ap = argparse.ArgumentParser()
    ap.add_argument("prop")
    ap.add_argument("--tier", default=os.environ.get("VERIF_TIER", "quick"))
    ap.add_argument("--replay")
    a = ap.parse_args()
    seed = int(os.environ.get("VERIF_SEED", "1"))
    import props
    if a.prop not in props.REGISTRY:
        print("unknown property", a.prop)
        return 2
    ctx = Ctx(a.prop, a.tier, seed)
    try:
        if a.replay:
            return props.replay(ctx, a.replay)
        return props.REGISTRY[a.prop](ctx)
    except ToolFailure as e:
        print("TOOL-FAILURE %s: %s" % (a.prop, e))
        return 2


if __name__ == "__main__":
    sys.exit(main())
