NAME    prob
 XL v1 r3
 XL v3 r4
 XL v4 r5
 UL v2
 UL v6
 UL v7
ENDATA
