NAME    prob
 XU v4 r3
 XL v7 r4
 UL v1
 UL v3
ENDATA
