NAME    prob
 XL v1 r2
 XU v3 r3
 XL v4 r4
 UL v2
 UL v6
 UL v7
ENDATA
