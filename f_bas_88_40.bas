NAME    prob
 XL v2 r4
 XL v4 r5
 UL v5
 UL v6
 UL v7
ENDATA
