NAME    prob
 XL v1 r1
 XL v5 r3
 XL v7 r4
 UL v2
 UL v3
 UL v4
 UL v6
ENDATA
