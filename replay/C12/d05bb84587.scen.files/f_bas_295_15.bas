NAME    prob
 XL v2 r1
ENDATA
