NAME    prob
 XL v1 r1
 XL v3 r3
 UL v2
ENDATA
