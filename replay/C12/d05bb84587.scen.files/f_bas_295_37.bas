NAME    prob
 XL v3 r3
 UL v1
 UL v2
ENDATA
