NAME    prob
 XL v1 r2
 UL v2
ENDATA
