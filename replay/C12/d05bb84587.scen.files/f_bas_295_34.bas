NAME    prob
 XL v1 r1
 UL v3
ENDATA
