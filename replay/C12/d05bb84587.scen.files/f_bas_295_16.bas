NAME    prob
 XL v2 r1
 XL v3 r2
 UL v1
ENDATA
