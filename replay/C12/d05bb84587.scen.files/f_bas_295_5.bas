NAME    prob
 UL v1
 UL v3
ENDATA
