NAME    prob
 XL v2 r2
 UL v1
ENDATA
