NAME    prob
 XL v1 r3
 UL v3
ENDATA
