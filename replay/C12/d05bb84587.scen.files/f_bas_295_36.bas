NAME    prob
 UL v3
ENDATA
