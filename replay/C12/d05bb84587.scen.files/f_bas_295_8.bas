NAME    prob
 UL v1
ENDATA
