NAME    prob
 XL v1 r1
ENDATA
