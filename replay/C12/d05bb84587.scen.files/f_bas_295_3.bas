NAME    prob
 XL v1 r1
 XL v3 r2
 UL v2
ENDATA
