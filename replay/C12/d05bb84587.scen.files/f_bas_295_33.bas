NAME    prob
 XL v3 r3
ENDATA
