NAME    prob
 XL v2 r3
 UL v1
ENDATA
