NAME    prob
 XL v1 r2
 UL v3
ENDATA
