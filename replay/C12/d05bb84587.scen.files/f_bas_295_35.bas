NAME    prob
 XL v3 r3
 UL v1
ENDATA
