NAME    prob
 XL v2 r3
 UL v1
 UL v3
ENDATA
