NAME    prob
 XL v3 r2
 UL v2
ENDATA
