NAME    prob
 XL v2 r1
 UL v3
ENDATA
