NAME    prob
ENDATA
