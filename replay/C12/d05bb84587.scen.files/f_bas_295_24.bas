NAME    prob
 XL v2 r2
 UL v3
ENDATA
