NAME    prob
 XL v3 r1
 UL v2
ENDATA
