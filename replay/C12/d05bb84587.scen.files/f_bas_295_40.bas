NAME    prob
 XL v3 r1
 UL v1
ENDATA
