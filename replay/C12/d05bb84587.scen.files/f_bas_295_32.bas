NAME    prob
 UL v1
 UL v2
 UL v3
ENDATA
