NAME    prob
 XL v1 r2
 XL v2 r3
ENDATA
