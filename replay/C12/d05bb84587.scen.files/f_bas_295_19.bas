NAME    prob
 XL v1 r1
 XL v2 r3
ENDATA
