NAME    prob
 XL v2 r2
 XL v3 r3
ENDATA
