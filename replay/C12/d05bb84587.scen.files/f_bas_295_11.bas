NAME    prob
 XL v2 r1
 UL v1
ENDATA
