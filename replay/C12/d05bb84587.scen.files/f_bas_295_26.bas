NAME    prob
 XL v1 r2
 XL v3 r3
ENDATA
