NAME    prob
 XL v1 r3
ENDATA
