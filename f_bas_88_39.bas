NAME    prob
 XL v1 r1
 XL v3 r2
 XU v5 r3
 XL v7 r5
 UL v2
 UL v6
ENDATA
