NAME    prob
 XL v4 r2
 XL v5 r3
 XL v6 r5
 UL v1
 UL v2
 UL v7
ENDATA
