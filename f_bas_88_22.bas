NAME    prob
 XL v4 r3
 XL v6 r4
 UL v1
 UL v2
 UL v3
ENDATA
