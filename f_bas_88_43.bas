NAME    prob
 XL v3 r1
 XL v4 r4
 UL v5
 UL v7
ENDATA
