NAME    prob
 XL v5 r4
 UL v2
 UL v3
 UL v6
ENDATA
