NAME    prob
 XL v2 r2
 XL v3 r5
 UL v6
ENDATA
