NAME    prob
 XL v3 r1
 XU v6 r3
 UL v1
 UL v5
ENDATA
