NAME    prob
 XL v1 r1
 XL v2 r2
 XL v3 r3
 XL v4 r4
 XL v5 r5
 UL v6
ENDATA
