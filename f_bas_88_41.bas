NAME    prob
 XL v1 r2
 XL v4 r3
 UL v5
 UL v6
ENDATA
