"""Histories: edits interleaved with solves (C05), two-handle interleavings (C16), bases (C12, C14), B^-1 (C13)."""
import json, random
from fractions import Fraction as F
import api, lpfam, refsolve
from refsolve import fin, qstr

SOLVERS = ["exact_primal", "exact_dual", "opt_primal", "opt_dual"]


def raw(d):
    return "raw " + json.dumps(d, separators=(",", ":")).encode().hex()


def solve_cmd(h, which):
    if which == "exact_primal":
        return "exact %s primal - 1" % h
    if which == "exact_dual":
        return "exact %s dual - 1" % h
    return "%s %s" % (which, h)


def resolve_history(seed, steps=14, solver=None, start=None):
    """C05: random edits on a small LP; after every edit all accessors are read (no stale solution may be served);
    regularly the object is re-solved and a fresh copy is solved from scratch - the answers must agree."""
    g = api.Gen(seed, maxval=5)
    r = g.r
    solver = solver or r.choice(SOLVERS)
    g.emit("scenario resolve_%s_%d" % (solver, seed))
    g.emit("handler on")
    kind = start or r.choice(["feasible", "feasible", "boxed", "random"])
    lp = lpfam.family(kind, r)
    for ln in lpfam.load_cmd(lp):
        g.emit(ln)
    g.m, g.n = lp["m"], lp["n"]
    g.rn, g.cn, g.sense = list(lp["rname"]), list(lp["cname"]), list(lp["sense"])
    g.namectr = 100
    g.bnd = [[qstr(lp["lo"][j]), qstr(lp["up"][j])] for j in range(lp["n"])]
    if lpfam.file_origin_ok(lp) and r.random() < .3:
        for ln in lpfam.via_file_cmds("res_%s_%d" % (solver, seed)):
            g.emit(ln)
    g.emit("dump h0")
    if r.random() < .25:
        g.emit("set_param h0 7 0")           # scaling off: the simplex runs on the problem as stored
    # dual steepest edge is the default; vary pricing sometimes
    if r.random() < .4:
        g.emit("set_param h0 2 %d" % r.choice([6, 7, 8, 9]))
    if r.random() < .4:
        g.emit("set_param h0 0 %d" % r.choice([1, 2, 3, 4]))
    g.emit(solve_cmd("h0", solver))
    g.emit("sol h0")
    for s in range(steps):
        ne = r.choice([1, 1, 1, 2, 3])
        for _ in range(ne):
            k = r.random()
            if k < .25:
                g.op_add_row()
            elif k < .38:
                g.op_add_col()
            elif k < .50:
                g.op_del_rows()
            elif k < .58:
                g.op_del_cols()
            else:
                g.op_change()
            g.emit("sol h0")                 # accessors between edit and next solve
        g.emit("dump h0")
        # from-scratch copy
        g.emit("copy h1 h0 fresh")
        g.emit(solve_cmd("h1", r.choice(["exact_primal", "exact_dual"])))
        g.emit("sol h1")
        # incremental re-solve of the edited object
        sv = solver if r.random() < .7 else r.choice(SOLVERS)
        g.emit(solve_cmd("h0", sv))
        g.emit("sol h0")
        g.emit(raw(dict(call="eq_answer", h="h0", h2="h1", props=["C05"])))
        if r.random() < .3:
            g.emit("binv h0")
        g.emit("free h1")
    g.emit("free h0")
    return g.text()


def first_edit_history(seed):
    """C05 / C17: a problem READ FROM A FILE carries derived data the builders do not create (the row-wise copy of the matrix); every kind
    of structural edit must invalidate it.  Read, make ONE kind of edit as the very first change (several columns / rows deleted at once,
    a row / column added, a coefficient changed), solve directly with the simplex (scaling on or off), compare with a fresh copy solved
    from scratch; then a second edit of another kind, compare again."""
    g = api.Gen(seed, maxval=5)
    r = g.r
    solver = r.choice(["opt_dual", "opt_primal", "opt_dual", "opt_primal", "exact_dual"])
    g.emit("scenario firstedit_%s_%d" % (solver, seed))
    g.emit("handler on")
    lp = lpfam.sparse_cover(r)
    for ln in lpfam.load_cmd(lp):
        g.emit(ln)
    g.m, g.n = lp["m"], lp["n"]
    g.rn, g.cn, g.sense = list(lp["rname"]), list(lp["cname"]), list(lp["sense"])
    g.namectr = 100
    g.bnd = [[qstr(lp["lo"][j]), qstr(lp["up"][j])] for j in range(lp["n"])]
    fmt = "LP" if r.random() < .35 else "MPS"      # sparse_cover has every column in the objective and no ranged row: the LP reader keeps the order
    for ln in lpfam.via_file_cmds("fe_%d" % seed, "h0", fmt):
        g.emit(ln)
    g.emit("dump h0")
    if r.random() < .5:
        g.emit("set_param h0 7 0")
    if r.random() < .3:
        g.emit(solve_cmd("h0", solver))
        g.emit("sol h0")
    kinds = ["del_cols", "del_cols", "del_rows", "add_row", "add_col", "change"]
    r.shuffle(kinds)
    for kind in kinds[:r.randint(2, 3)]:
        if kind == "del_cols":
            k = r.randint(2, min(6, g.n - 2))
            idx = sorted(r.sample(range(g.n), k))
            if r.random() < .5:
                sh = idx[:]
                r.shuffle(sh)
                g.emit("delete_cols h0 %d %s" % (len(sh), " ".join(map(str, sh))))
            else:
                g.emit("delete_setcols h0 %d %s" % (g.n, " ".join("1" if i in idx else "0" for i in range(g.n))))
            for i in reversed(idx):
                del g.cn[i]
                del g.bnd[i]
            g.n -= len(idx)
        elif kind == "del_rows":
            g.op_del_rows()
        elif kind == "add_row":
            g.op_add_row()
        elif kind == "add_col":
            g.op_add_col()
        else:
            g.op_change()
        g.emit("sol h0")
        g.emit("dump h0")
        g.emit("copy h1 h0 fresh")
        g.emit(solve_cmd("h1", r.choice(["exact_primal", "exact_dual"])))
        g.emit("sol h1")
        g.emit(solve_cmd("h0", solver))
        g.emit("sol h0")
        g.emit(raw(dict(call="eq_answer", h="h0", h2="h1", props=["C05"])))
        g.emit("free h1")
    g.emit("free h0")
    return g.text()


def bound_move_history(seed):
    """C05: after a solve, move single bounds (relax / tighten, both sides, through the single-bound and the list API) of every
    column - in a boxed LP most of them are active at the optimum - read the accessors, re-solve, compare with a fresh copy"""
    r = random.Random(seed)
    lp = lpfam.feasible_bounded(r, r.randint(1, 4), r.randint(2, 5), kind=r.choice(["small", "frac"]))
    solver = r.choice(SOLVERS)
    out = ["scenario bmove_%s_%d" % (solver, seed), "handler on"] + lpfam.load_cmd(lp) + ["dump h0", solve_cmd("h0", solver), "sol h0"]
    lo, up = list(lp["lo"]), list(lp["up"])
    for step in range(r.randint(4, 10)):
        j = r.randrange(lp["n"])
        side = r.choice("LU")
        d = F(r.choice([1, 2, 5, 1, 3]), r.choice([1, 1, 2]))
        if side == "U":
            new = up[j] + d if r.random() < .65 else max(lo[j], up[j] - d)
            up[j] = new
        else:
            new = lo[j] - d if r.random() < .65 else min(up[j], lo[j] + d)
            lo[j] = new
        if r.random() < .75:
            out.append("change_bound h0 %d %s %s" % (j, side, qstr(new)))
        else:
            out.append("change_bounds h0 1 %d %s %s" % (j, side, qstr(new)))
        out += ["sol h0", "dump h0", "copy h1 h0 fresh", solve_cmd("h1", r.choice(["exact_primal", "exact_dual"])), "sol h1",
                solve_cmd("h0", solver if r.random() < .7 else r.choice(SOLVERS)), "sol h0", raw(dict(call="eq_answer", h="h0", h2="h1", props=["C05"])), "free h1"]
    out.append("free h0")
    return "\n".join(out) + "\n"


def two_handle_history(seed, steps=16):
    """C16: copy, then interleave edits / solves / frees on original and copy; after every action on one handle
    the other is observed (dump + sol) and must be unchanged."""
    ga = api.Gen(seed * 2 + 1, maxval=5)
    gb = api.Gen(seed * 2 + 2, maxval=5)
    r = ga.r
    out = ["scenario copy_%d" % seed, "handler on"]
    lp = lpfam.family(r.choice(["feasible", "boxed", "random", "special"]), r)
    if r.random() < .3:
        lp["m"], lp["n"] = 0, 0
        lp["A"], lp["sense"], lp["rhs"], lp["range"], lp["rname"] = [], [], [], [], []
        lp["obj"], lp["lo"], lp["up"], lp["cname"] = [], [], [], []
    out += lpfam.build_cmds(lp, "h0", r.choice(lpfam.BUILD_MODES))
    for which, val in [(0, r.choice([1, 2, 3, 4])), (2, r.choice([6, 7, 8, 9])), (7, r.choice([0, 1])), (4, r.choice([0, 1]))]:
        if r.random() < .5:
            out.append("set_param h0 %d %d" % (which, val))
    if r.random() < .3:
        out.append("set_param h0 5 %d" % r.choice([1000, 77]))
    pre = r.random()
    limited = any(l.startswith("set_param h0 5") for l in out)
    twin = None
    if pre < .4:
        out.append(solve_cmd("h0", r.choice(SOLVERS)))
    elif pre < .75 and not limited and lp["n"] > 0:
        # objective limits are parameters too: a copy must stop at them exactly as the original does
        twin = r.choice(["opt_dual", "opt_dual", "opt_primal"])
        if r.random() < .7:
            try:
                import refsolve
                sol = refsolve.solve(lp)
            except Exception:
                sol = None
            if sol and sol.get("kind") == "opt":
                v = F(sol["val"])
                d = r.choice([F(1), F(1, 2), F(-1), F(5)])
                if lp["max"]:
                    out.append("set_param_q h0 9 %s" % qstr(v + d))      # QS_PARAM_OBJLLIM
                else:
                    out.append("set_param_q h0 8 %s" % qstr(v - d))      # QS_PARAM_OBJULIM
    if r.random() < .3:
        # a limit of either kind, set while the objective sense was another one: the stored limits do not depend on the sense
        out.append("set_param_q h0 %d %s" % (r.choice([8, 9]), qstr(F(r.randint(-20, 20), r.choice([1, 2, 3])))))
        if r.random() < .6:
            out.append("change_objsense h0 %s" % ("min" if lp["max"] else "max"))
            if r.random() < .3:
                out.append("change_objsense h0 %s" % ("max" if lp["max"] else "min"))
    out.append("dump h0")
    out.append("sol h0")
    out.append("copy h1 h0 thecopy")
    out.append("dump h1")
    out.append("sol h1")
    out.append("dump h0")
    out.append("sol h0")
    if twin:
        out += ["%s h0" % twin, "%s h1" % twin, raw(dict(call="same_outcome", h="h0", h2="h1", props=["C16"])), "sol h0", "sol h1"]
    out.append("copy_conv h0 dbl")
    out.append("copy_conv h0 mpf")
    if r.random() < .5:
        out.append("precision %d" % r.choice([64, 192, 512]))
        out.append("copy_conv h0 mpf")
        out.append("precision 128")
    for g in (ga, gb):
        g.m, g.n = lp["m"], lp["n"]
        g.rn, g.cn, g.sense = list(lp["rname"]), list(lp["cname"]), list(lp["sense"])
        g.bnd = [[qstr(lp["lo"][j]), qstr(lp["up"][j])] for j in range(lp["n"])]
        g.namectr = 200
    ga.h, gb.h = "h0", "h1"
    alive = {"h0": True, "h1": True}
    for s in range(steps):
        g, other = (ga, "h1") if r.random() < .5 else (gb, "h0")
        if not alive[g.h]:
            continue
        g.lines = []
        k = r.random()
        if k < .55:
            g.random_edit()
        elif k < .9:
            g.lines.append(solve_cmd(g.h, r.choice(SOLVERS)))
        elif k < .95:
            g.lines.append("copy_conv %s dbl" % g.h)
        else:
            g.lines.append("free %s" % g.h)
            alive[g.h] = False
        out += g.lines
        if alive[other]:
            out.append("dump %s" % other)
            out.append("sol %s" % other)
    for h in ("h0", "h1"):
        if alive[h]:
            out.append("dump %s" % h)
            out.append("free %s" % h)
    return "\n".join(out) + "\n"


# ------------------------------------------------------------------------------------------------
# bases
def basic_solution(lp, cstat, rstat):
    """exact basic solution (xs over structurals+logicals, pi) of a basis; or a null vector if singular.
    untrusted witness - TLC verifies it (LPSem!BasicSolutionDefects / BasisSingularWitness)"""
    m, n = lp["m"], lp["n"]
    sig = [F(-1) if s in "GR" else F(1) for s in lp["sense"]]
    logup = [F(0) if s == "E" else (F(lp["range"][i]) if s == "R" else "inf") for i, s in enumerate(lp["sense"])]
    cols = {}
    for i in range(m):
        for j, v in lp["A"][i]:
            cols.setdefault(j, {})[i] = cols.setdefault(j, {}).get(i, F(0)) + F(v)
    xs = [F(0)] * (n + m)
    for j in range(n):
        c = cstat[j]
        if c != "1" and fin(lp["lo"][j]) and lp["lo"][j] == lp["up"][j]:
            xs[j] = F(lp["lo"][j])          # a non-basic fixed column sits at its bounds whatever its label
            continue
        if c == "0":
            if not fin(lp["lo"][j]):
                return None
            xs[j] = F(lp["lo"][j])
        elif c == "2":
            if not fin(lp["up"][j]):
                return None
            xs[j] = F(lp["up"][j])
    for i in range(m):
        if rstat[i] == "2":
            if logup[i] == "inf":
                return None
            xs[n + i] = logup[i]
    basic = [j for j in range(n) if cstat[j] == "1"] + [n + i for i in range(m) if rstat[i] == "1"]
    if len(basic) != m:
        return None

    def col(k):
        if k < n:
            return cols.get(k, {})
        return {k - n: sig[k - n]}
    # B x_B = rhs - N x_N
    rhs = [F(lp["rhs"][i]) for i in range(m)]
    for k in range(n + m):
        if k not in basic and xs[k] != 0:
            for i, v in col(k).items():
                rhs[i] -= v * xs[k]
    Bm = [[F(0)] * m for _ in range(m)]
    for c, k in enumerate(basic):
        for i, v in col(k).items():
            Bm[i][c] = v
    sol = gauss(Bm, rhs)
    if sol is None:
        v = nullvec(Bm)
        vec = [F(0)] * (n + m)
        for c, k in enumerate(basic):
            vec[k] = v[c]
        return dict(sing=1, v=vec)
    for c, k in enumerate(basic):
        xs[k] = sol[c]
    # B^T pi = c_B
    cB = [F(lp["obj"][k]) if k < n else F(0) for k in basic]
    Bt = [[Bm[i][c] for i in range(m)] for c in range(m)]
    pi = gauss(Bt, cB)
    return dict(sing=0, xs=xs, pi=pi)


def gauss(A, b):
    m = len(A)
    M = [list(A[i]) + [b[i]] for i in range(m)]
    for c in range(m):
        p = next((r_ for r_ in range(c, m) if M[r_][c] != 0), None)
        if p is None:
            return None
        M[c], M[p] = M[p], M[c]
        inv = 1 / M[c][c]
        M[c] = [v * inv for v in M[c]]
        for r_ in range(m):
            if r_ != c and M[r_][c] != 0:
                f = M[r_][c]
                M[r_] = [a - f * b_ for a, b_ in zip(M[r_], M[c])]
    return [M[i][m] for i in range(m)]


def nullvec(A):
    m = len(A)
    M = [list(r_) for r_ in A]
    piv = []
    row = 0
    for c in range(m):
        p = next((r_ for r_ in range(row, m) if M[r_][c] != 0), None)
        if p is None:
            continue
        M[row], M[p] = M[p], M[row]
        inv = 1 / M[row][c]
        M[row] = [v * inv for v in M[row]]
        for r_ in range(m):
            if r_ != row and M[r_][c] != 0:
                f = M[r_][c]
                M[r_] = [a - f * b_ for a, b_ in zip(M[r_], M[row])]
        piv.append(c)
        row += 1
    free = next(c for c in range(m) if c not in piv)
    v = [F(0)] * m
    v[free] = F(1)
    for r_, c in enumerate(piv):
        v[c] = -M[r_][free]
    return v


def all_bases(lp, limit=None, r=None):
    """every choice of m basic variables and every lower/upper/free assignment of the others (valid statuses only)"""
    import itertools
    m, n = lp["m"], lp["n"]
    out = []
    for bs in itertools.combinations(range(n + m), m):
        opts = []
        for k in range(n + m):
            if k in bs:
                opts.append(["1"])
            elif k < n:
                lo, up = lp["lo"][k], lp["up"][k]
                o = []
                if fin(lo):
                    o.append("0")
                if fin(up) and up != lo:
                    o.append("2")
                if not fin(lo) and not fin(up):
                    o.append("3")
                opts.append(o or ["0"])
            else:
                s = lp["sense"][k - n]
                opts.append(["0", "2"] if s == "R" and lp["range"][k - n] != 0 else ["0"])
        for combo in itertools.product(*opts):
            out.append(("".join(combo[:n]) or "-", "".join(combo[n:]) or "-"))
    if limit and len(out) > limit:
        out = r.sample(out, limit)
    return out


def basis_scenario(lp, sid, r, maxbases=40):
    """C12 + C14: all (or sampled) bases of an LP: witness of the basic solution, the three verdict functions,
    write/read round trip of the basis file, warm-started solve from the basis"""
    ctr = [0]

    def newfile():
        ctr[0] += 1
        return "f_%s_%d.bas" % (sid, ctr[0])
    lines = ["scenario %s" % sid, "handler on"] + lpfam.build_cmds(lp, "h0", r.choice(lpfam.BUILD_MODES)) + ["dump h0"]
    # solve with basis hand-back: the returned basis must be confirmed by the verdict functions
    for algo in ("primal", "dual"):
        f = newfile()
        lines += ["exact h0 %s b7 1" % algo, "sol h0", "basis_optimalstatus h0 b7", "basis_dualstatus h0 b7", "verify h0 b7 0", "verify h0 b7 1",
                  "write_basis h0 b7 %s" % f, "read_basis h0 b6 %s" % f, raw(dict(call="basis_rt", h="h0", b="b7", b2="b6")),
                  "exact h0 %s b6 1" % ("dual" if algo == "primal" else "primal"), "sol h0", "free_basis b7", "free_basis b6"]
    # the problem's own current basis: writing must not consume it
    f = newfile()
    lines += ["opt_primal h0", "sol h0", "write_basis h0 - %s" % f, "sol h0", "get_basis h0 b5", "read_basis h0 b4 %s" % f,
              raw(dict(call="basis_rt", h="h0", b="b5", b2="b4")), "read_and_load_basis h0 %s" % f, "sol h0", "opt_dual h0", "sol h0"]
    for (cs, rs) in all_bases(lp, maxbases, r):
        w = basic_solution(lp, cs if cs != "-" else "", rs if rs != "-" else "")
        lines.append("mkbasis b0 %s %s" % (cs, rs))
        if w is not None:
            if w["sing"]:
                lines.append(raw(dict(call="bsol", h="h0", b="b0", sing=1, v=[qstr(v) for v in w["v"]])))
            else:
                lines.append(raw(dict(call="bsol", h="h0", b="b0", sing=0, xs=[qstr(v) for v in w["xs"]], pi=[qstr(v) for v in w["pi"]])))
        k = r.random()
        lines.append("basis_optimalstatus h0 b0")
        lines.append("basis_dualstatus h0 b0")
        if k < .3:
            lines.append("verify h0 b0 %d" % r.choice([0, 1]))
        if k < .5:
            f = newfile()
            lines += ["write_basis h0 b0 %s" % f, "read_basis h0 b1 %s" % f, raw(dict(call="basis_rt", h="h0", b="b0", b2="b1"))]
        if k > .8:
            # a basis loaded by the user (no solve since) IS the problem's current basis: writing "the problem's own basis" must write it and keep it
            f = newfile()
            lines += ["load_basis h0 b0", "sol h0", "write_basis h0 - %s" % f, "sol h0", "read_basis h0 b3 %s" % f, raw(dict(call="basis_rt", h="h0", b="b0", b2="b3")), "free_basis b3",
                      "opt_primal h0", "sol h0", "binv h0"]
        if .5 < k < .8:
            # warm start of the exact driver from this (arbitrary valid) basis: the basis handed back must describe the solution
            lines += ["exact h0 %s b0 1" % ("dual" if k < .65 else "primal"), "sol h0", "basis_optimalstatus h0 b0"]
    lines.append("free h0")
    return "\n".join(lines) + "\n"


def binv_scenario(lp, sid, r):
    """C13: B^-1 rows / tableau rows / basis order after solves stopped at iteration limits, after pivot-ins and warm starts"""
    lines = ["scenario %s" % sid, "handler on"] + lpfam.build_cmds(lp, "h0", r.choice(lpfam.BUILD_MODES)) + ["dump h0"]
    for it in (1, 2, 3, 5, 8):
        lines += ["copy h1 h0 c", "set_param h1 5 %d" % it, "set_param h1 0 %d" % r.choice([1, 2, 3, 4]), "set_param h1 2 %d" % r.choice([6, 7, 8, 9]),
                  r.choice(["opt_primal h1", "opt_dual h1"]), "binv h1", "set_param h1 5 100000", r.choice(["opt_primal h1", "opt_dual h1"]), "sol h1", "binv h1"]
        if lp["n"]:
            lines += ["pivotin_col h1 1 %d" % r.randrange(lp["n"]), "binv h1"]
        if lp["m"]:
            lines += ["pivotin_row h1 1 %d" % r.randrange(lp["m"]), "binv h1"]
        lines += ["binv h1", "binv h1", "free h1"]
    lines += ["opt_dual h0", "binv h0", "free h0"]
    return "\n".join(lines) + "\n"
