"""Scenario generators for C15 (equivalent formulations), C17 (determinism), C18 (leaks), C20 (quiet)"""
import json, random
from fractions import Fraction as F
import api, lpfam, hist
from refsolve import fin, qstr, INF, NINF


# ------------------------------------------------------------------------------------------------ C15
def neg_bound(v):
    return INF if v == NINF else (NINF if v == INF else -v)


def clone(lp):
    d = dict(lp)
    for k in ("A", "sense", "rhs", "range", "obj", "lo", "up", "rname", "cname"):
        d[k] = list(lp[k])
    d["A"] = [list(r_) for r_ in lp["A"]]
    return d


def scale_factor(r):
    """a positive rational multiplier: mostly tame, sometimes far outside the double-precision tolerances (the property says ANY positive rational)"""
    k = r.random()
    if k < .7:
        return F(r.randint(1, 9), r.randint(1, 7))
    if k < .8:
        return F(1, 10 ** r.randint(6, 20))
    if k < .88:
        return F(1, 2 ** r.randint(30, 60))
    if k < .95:
        return F(10 ** r.randint(6, 15))
    return F(2 ** 61 - 1, 10 ** 9 + 7)


def transform(lp, r):
    """returns (lp2, name, law) with law = dict(neg=0/1, off=Fraction): val(lp) = sign*val(lp2) + off"""
    kind = r.choice(["rowperm", "colperm", "rowscale_pos", "rowscale_neg", "colscale", "shift", "objneg", "duprow", "redundant", "eqsplit"])
    t = clone(lp)
    m, n = lp["m"], lp["n"]
    law = dict(neg=0, off=F(0))
    if kind == "rowperm" and m > 1:
        perm = list(range(m)); r.shuffle(perm)
        for k in ("A", "sense", "rhs", "range", "rname"):
            t[k] = [lp[k][i] for i in perm]
    elif kind == "colperm" and n > 1:
        perm = list(range(n)); r.shuffle(perm)      # new column k is old column perm[k]
        inv = {old: new for new, old in enumerate(perm)}
        for k in ("obj", "lo", "up", "cname"):
            t[k] = [lp[k][j] for j in perm]
        t["A"] = [sorted((inv[j], v) for j, v in row) for row in lp["A"]]
    elif kind == "rowscale_pos" and m:
        i = r.randrange(m); lam = scale_factor(r)
        t["A"][i] = [(j, v * lam) for j, v in lp["A"][i]]
        t["rhs"][i] = lp["rhs"][i] * lam
        t["range"][i] = lp["range"][i] * lam
    elif kind == "rowscale_neg" and m:
        i = r.randrange(m); lam = -scale_factor(r)
        t["A"][i] = [(j, v * lam) for j, v in lp["A"][i]]
        s = lp["sense"][i]
        if s == "L":
            t["sense"][i], t["rhs"][i] = "G", lp["rhs"][i] * lam
        elif s == "G":
            t["sense"][i], t["rhs"][i] = "L", lp["rhs"][i] * lam
        elif s == "E":
            t["rhs"][i] = lp["rhs"][i] * lam
        else:   # rhs <= ax <= rhs+range  ->  lam(rhs+range) <= lam ax <= lam rhs
            t["rhs"][i] = (lp["rhs"][i] + lp["range"][i]) * lam
            t["range"][i] = lp["range"][i] * (-lam)
    elif kind == "colscale" and n:
        j = r.randrange(n); lam = scale_factor(r) * r.choice([1, -1])     # x_j = lam * x'_j
        t["A"] = [[(c, v * lam if c == j else v) for c, v in row] for row in lp["A"]]
        t["obj"][j] = lp["obj"][j] * lam
        lo, up = lp["lo"][j], lp["up"][j]
        lo2 = lo if not fin(lo) else lo / lam
        up2 = up if not fin(up) else up / lam
        if lam < 0:
            lo2, up2 = (neg_bound(up) if not fin(up) else up / lam), (neg_bound(lo) if not fin(lo) else lo / lam)
        t["lo"][j], t["up"][j] = lo2, up2
    elif kind == "shift" and n:
        j = r.randrange(n); dl = F(r.randint(-9, 9), r.randint(1, 5))      # x_j = x'_j + dl
        if fin(lp["lo"][j]):
            t["lo"][j] = lp["lo"][j] - dl
        if fin(lp["up"][j]):
            t["up"][j] = lp["up"][j] - dl
        for i in range(m):
            for c, v in lp["A"][i]:
                if c == j:
                    t["rhs"][i] = t["rhs"][i] - v * dl
        law["off"] = lp["obj"][j] * dl
    elif kind == "objneg":
        t["obj"] = [-v for v in lp["obj"]]
        t["max"] = not lp["max"]
        law["neg"] = 1
    elif kind == "duprow" and m:
        i = r.randrange(m)
        for k in ("A", "sense", "rhs", "range"):
            t[k].append(lp[k][i] if k != "A" else list(lp["A"][i]))
        t["rname"].append("dup%d" % m)
        t["m"] += 1
    elif kind == "redundant" and m >= 2:
        cands = [i for i in range(m) if lp["sense"][i] in "LG"]
        if len(cands) >= 2:
            a, b = r.sample(cands, 2)
            la, lb = F(r.randint(1, 4)), F(r.randint(1, 4))
            sa = 1 if lp["sense"][a] == "L" else -1       # bring both to <= form
            sb = 1 if lp["sense"][b] == "L" else -1
            acc = {}
            for j, v in lp["A"][a]:
                acc[j] = acc.get(j, F(0)) + la * sa * v
            for j, v in lp["A"][b]:
                acc[j] = acc.get(j, F(0)) + lb * sb * v
            t["A"].append(sorted((j, v) for j, v in acc.items() if v != 0))
            t["sense"].append("L")
            t["rhs"].append(la * sa * lp["rhs"][a] + lb * sb * lp["rhs"][b] + F(r.randint(0, 3)))
            t["range"].append(F(0))
            t["rname"].append("red%d" % m)
            t["m"] += 1
        else:
            kind = "identity"
    elif kind == "eqsplit" and m:
        es = [i for i in range(m) if lp["sense"][i] == "E"]
        if es:
            i = r.choice(es)
            t["sense"][i] = "L"
            t["A"].append(list(lp["A"][i])); t["sense"].append("G"); t["rhs"].append(lp["rhs"][i]); t["range"].append(F(0)); t["rname"].append("eqs%d" % m)
            t["m"] += 1
        else:
            kind = "identity"
    else:
        kind = "identity"
    return t, kind, law


def metamorphic_scenario(lp, sid, r, depth=3):
    lines = ["scenario %s" % sid, "handler on"] + lpfam.build_cmds(lp, "h0", "load") + ["dump h0", "exact h0 %s - 1" % r.choice(["primal", "dual"])]
    cur, neg, off = lp, 0, F(0)
    kinds = []
    for d in range(depth):
        t, kind, law = transform(cur, r)
        # compose: val(lp) = s*val(cur)+o ; val(cur) = s2*val(t)+o2  =>  val(lp) = s*s2*val(t) + s*o2 + o
        s = -1 if neg else 1
        off = off + s * law["off"]
        neg = neg ^ law["neg"]
        cur = t
        kinds.append(kind)
        lines += lpfam.build_cmds(cur, "h1", "load") + ["dump h1", "exact h1 %s - 1" % r.choice(["primal", "dual"]),
                  hist.raw(dict(call="eq_answer", h="h0", h2="h1", neg=neg, off=qstr(off), props=["C15"], kinds=list(kinds))), "free h1"]
    lines.append("free h0")
    return "\n".join(lines) + "\n"


# ------------------------------------------------------------------------------------------------ C20 / C18 files
BAD_LP_FILES = {
    "bad_nosection.lp": "x + y >= 2\nEnd\n",
    "bad_token.lp": "Minimize\n obj: x + 2 y\nSubject To\n c1: x + y >= \nEnd\n",
    "bad_number.lp": "Minimize\n obj: x + 2..5 y\nSubject To\n c1: x + y >= 1\nEnd\n",
    "bad_bounds.lp": "Minimize\n obj: x\nSubject To\n c1: x + y >= 1\nBounds\n x >= \n y <= <= 2\nEnd\n",
    "bad_dupbound.lp": "Minimize\n obj: x\nSubject To\n c1: x + y >= 1\nBounds\n x <= 4\n x <= 5\n 1 <= y\n 2 <= y\nEnd\n",
    "bad_noend.lp": "Maximize\n obj: x\nSubject To\n c1: x + y <= 1\n",
    "bad_emptyrow.lp": "Minimize\n obj: x\nSubject To\n c1: 0 x >= 1\n c2: x + y >= 1\nEnd\n",
    "bad_divzero.lp": "Minimize\n obj: 1/0 x\nSubject To\n c1: x + y >= 1\nEnd\n",
    "bad_empty.lp": "",
    "bad_binary.lp": "\x00\x01\x02\xff\xfe Minimize\n",
    "bad_rows.mps": "NAME t\nROWS\n N obj\n Q r1\nCOLUMNS\n x obj 1 r1 1\nRHS\n rhs r1 1\nENDATA\n",
    "bad_order.mps": "NAME t\nCOLUMNS\n x obj 1 r1 1\nROWS\n N obj\n G r1\nENDATA\n",
    "bad_unknownrow.mps": "NAME t\nROWS\n N obj\n G r1\nCOLUMNS\n x obj 1 r9 1\nRHS\n rhs r1 1\nENDATA\n",
    "bad_number.mps": "NAME t\nROWS\n N obj\n G r1\nCOLUMNS\n x obj 1x r1 1\nRHS\n rhs r1 1\nENDATA\n",
    "bad_bound.mps": "NAME t\nROWS\n N obj\n G r1\nCOLUMNS\n x obj 1 r1 1\nRHS\n rhs r1 1\nBOUNDS\n ZZ bnd x 1\n UP bnd nosuch 1\nENDATA\n",
    "bad_noendata.mps": "NAME t\nROWS\n N obj\n G r1\nCOLUMNS\n x obj 1 r1 1\n",
    "bad_empty.mps": "",
    "bad.bas": "NAME x\n XU nosuchcol nosuchrow\n ZZ a b\nENDATA\n",
    "bad_trunc.bas": "NAME x\n XL",
    "ok_warn.lp": "Minimize\n obj: x + y\nSubject To\n c1: x + y >= 1\n c2: x - y <= 3\nBounds\n x <= 4\nEnd\n",
    "ok.mps": "NAME ok\nROWS\n N obj\n G r1\n L r2\nCOLUMNS\n x obj 1 r1 1\n x r2 1\n y obj 2 r1 1\nRHS\n rhs r1 1 r2 5\nBOUNDS\n UP bnd x 4\nENDATA\n",
}


def file_failure_scenarios(sid_prefix):
    """every early-exit path of the readers/writers: missing files, malformed files, unwritable targets"""
    out = []
    for name in sorted(BAD_LP_FILES):
        ty = "MPS" if name.endswith(".mps") else "LP"
        lines = ["scenario %s_%s" % (sid_prefix, name.replace(".", "_")), "handler on"]
        if name.endswith(".bas"):
            lines += ["read_prob h0 ok_warn.lp LP", "dump h0", "read_basis h0 b0 %s" % name, "read_and_load_basis h0 %s" % name, "sol h0", "free_basis b0", "free h0"]
        else:
            lines += ["read_prob h0 %s %s" % (name, ty), "dump h0", "exact h0 primal - 1", "sol h0", "write_prob h0 out_%s.lp LP" % name.replace(".", "_"), "free h0"]
        lines.append("shutdown")
        out.append("\n".join(lines) + "\n")
    lines = ["scenario %s_missing" % sid_prefix, "handler on", "read_prob h0 /nonexistent/dir/x.lp LP", "read_prob h0 /nonexistent/dir/x.mps MPS",
             "read_prob h1 ok_warn.lp LP", "dump h1", "write_prob h1 /nonexistent/dir/out.lp LP", "write_prob h1 /nonexistent/dir/out.mps MPS",
             "exact h1 dual b0 1", "write_basis h1 b0 /nonexistent/dir/out.bas", "write_basis h1 - /nonexistent/dir/out.bas",
             "read_basis h1 b1 /nonexistent/dir/in.bas", "read_and_load_basis h1 /nonexistent/dir/in.bas", "read_prob h2 ok_warn.lp XYZ", "sol h1", "free h1", "free_basis b0", "shutdown"]
    out.append("\n".join(lines) + "\n")
    return "".join(out)


def session_scenarios(seed, n):
    """the log handler is process-wide state of the host: a second library session (QSexactClear / QSexactStart) must still use it"""
    r = random.Random(seed)
    out = []
    for k in range(n):
        lp = lpfam.family(r.choice(["boxed", "feasible", "infeasible_margin"]), r)
        lines = ["scenario session_%d_%d" % (seed, k), "handler on"] + lpfam.build_cmds(lp, "h0", "load") + ["set_param h0 4 1", "opt_dual h0", "free h0", "restart"]
        lines += lpfam.build_cmds(lp, "h0", "load") + ["set_param h0 4 %d" % r.choice([1, 2]), r.choice(["opt_primal h0", "opt_dual h0", "exact h0 primal - 1"]),
                                                      "read_prob h1 /nonexistent/dir/x.lp LP", "read_prob h1 bad_token.lp LP", "write_prob h0 /nonexistent/dir/o.lp LP", "free h0", "restart",
                                                      "read_prob h2 ok_warn.lp LP", "set_param h2 4 1", "exact h2 dual - 1", "free h2"]
        out.append("\n".join(lines) + "\n")
    return "".join(out)


def display_scenarios(seed, n):
    """solver progress output at every display level must go to the handler"""
    r = random.Random(seed)
    out = []
    for k in range(n):
        lp = lpfam.family(r.choice(["boxed", "feasible", "infeasible_margin", "unbounded", "degenerate"]), r)
        lines = ["scenario disp_%d_%d" % (seed, k), "handler on"] + lpfam.build_cmds(lp, "h0", "load")
        for lvl in (1, 2, 3, 0):
            slv = lambda: r.choice(["exact h1 primal - 1", "exact h1 dual - 1", "opt_primal h1", "opt_dual h1"])
            # writers redirect the problem's reporter to the file: solves AFTER a write must still talk to the handler only
            lines += ["copy h1 h0 c", "set_param h1 4 %d" % lvl, slv(), "sol h1",
                      "write_prob h1 disp_%d_%d.%s" % (seed, k, r.choice(["lp LP", "mps MPS", "lp.gz LP"])), slv(), "sol h1",
                      "write_basis h1 - disp_%d_%d.bas" % (seed, k), slv(), "free h1"]
        lines += ["free h0", "shutdown"]
        out.append("\n".join(lines) + "\n")
    return "".join(out)
