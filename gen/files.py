"""Grammar-driven generators of LP / MPS files (C10), byte/token mutations (C11), round-trip scenarios (C08/C09).

The generator produces a TREE (structured token stream: every choice that carries meaning) and renders it to text with
random layout.  What the tree denotes is decided by the TLA+ specification (LPFile!Denote / MPSFile!Denote), not here."""
import json, random
from fractions import Fraction as F
import lpfam, hist
from refsolve import qstr, fin, INF, NINF

KEYWORDS = {"st", "subject", "to", "end", "bounds", "bound", "free", "inf", "infinity", "min", "max", "minimize", "maximize", "minimum", "maximum",
            "integer", "integers", "int", "problem", "prob", "s.t."}


def chars(s):
    return list(s)


def spell_number(r, big=False):
    """a random valid unsigned numeric literal (string) of magnitude < 10^140: the library represents infinity by 10^150, finite data
    must stay below it (precondition of the file properties)"""
    for _ in range(50):
        s = _spell_number(r, big)
        if abs(lit_value(s)) < F(10) ** 140:
            return s
    return "7"


def _spell_number(r, big=False):
    def digits(lo=1, hi=4):
        n = r.randint(lo, hi if not big else r.choice([hi, 12, 40, 150]))
        return "".join(r.choice("0123456789") for _ in range(n))

    def part():
        k = r.random()
        if k < .45:
            m = digits()
        elif k < .65:
            m = digits() + "." + digits(0, 3)
        elif k < .75:
            m = "." + digits(1, 3)
        elif k < .85:
            m = digits() + "."
        else:
            m = digits(1, 2) + "." + digits(1, 6)
        if r.random() < .25:
            m += r.choice("eE") + r.choice(["", "+", "-"]) + str(r.randint(0, r.choice([3, 12, 40])))
        return m
    s = part()
    if r.random() < .2:
        d = part()
        # divisor must not be zero
        if all(c in "0.eE+-" for c in d.split("e")[0].split("E")[0]):
            d = "3"
        s += "/" + d
    return s


def lit_value(s):
    """value of a literal (generator-side helper, NOT an oracle)"""
    def part(p):
        neg = p.startswith("-")
        p = p.lstrip("+-")
        e = 0
        for ch in "eE":
            if ch in p:
                p, ex = p.split(ch)
                e = int(ex) if ex not in ("", "+", "-") else 0
                break
        if "." in p:
            a, b = p.split(".")
        else:
            a, b = p, ""
        v = F(int(a or "0")) + (F(int(b), 10 ** len(b)) if b else 0)
        v = v * F(10) ** e
        return -v if neg else v
    if "/" in s:
        a, b = s.split("/")
        return part(a) / part(b)
    return part(s)


def var_name(r, k):
    # (names starting with keywords: "free13", "inf_x", "end_", "st1" must be read as names)
    base = r.choice(["x", "y", "z", "w", "var", "Q", "a_b", "t.1", "p#", "u$", "m!", "e", "E", "inf_x", "fre", "free", "Free_", "end_", "st", "bound"])
    return "%s%d" % (base, k)


def lp_tree(r, big=False):
    n = r.randint(1, 6)
    m = r.randint(1, 5)
    names = [var_name(r, k) for k in range(n)]

    def terms(minlen=1):
        k = r.randint(minlen, n + 2)
        out = []
        used = {}
        for _ in range(k):
            v = r.choice(names)
            coef = chars(spell_number(r, big)) if r.random() < .75 else []
            neg = r.random() < .4
            out.append(dict(neg=neg, coef=coef, var=v))
        return out
    # every variable must appear somewhere; objective may be sparse
    obj = terms(1)
    rows = []
    for i in range(m):
        t = terms(1)
        rows.append(dict(name=("" if r.random() < .3 else "c_%d%s" % (i, r.choice(["", "a", "_r"]))), terms=t,
                         op=r.choice(["<", "<=", "=<", ">", ">=", "=>", "="]), rneg=r.random() < .3, rhs=chars(spell_number(r, big))))
    seen = {t["var"] for t in obj} | {t["var"] for rw in rows for t in rw["terms"]}
    miss = [v for v in names if v not in seen]
    for v in miss:
        rows[r.randrange(m)]["terms"].append(dict(neg=False, coef=chars(spell_number(r)), var=v))
    # bounds
    bounds = []

    def bval(side, allow_inf=True):
        """side 'lo': -inf or finite; side 'up': +inf or finite"""
        if allow_inf and r.random() < .2:
            return dict(neg=(side == "lo"), inf=True, lit=[])
        return dict(neg=r.random() < .4, inf=False, lit=chars(spell_number(r, big)))

    def bnum(b):
        if b["inf"]:
            return F(-10) ** 400 if b["neg"] else F(10) ** 400
        v = lit_value("".join(b["lit"]))
        return -v if b["neg"] else v
    for v in names:
        k = r.random()
        if k < .35:
            continue
        if k < .5:
            bounds.append(dict(k="free", var=v))
        elif k < .62:
            bounds.append(dict(k="fix", var=v, v=bval("lo", False)))
        elif k < .75:
            b = bval("up")
            bounds.append(dict(k="u", var=v, up=b))
            if r.random() < .15:
                bounds.append(dict(k="u", var=v, up=bval("up")))       # second definition of the same side: the first one wins
        elif k < .87:
            b = bval("lo")
            if bnum(b) > 0 and not b["inf"] and r.random() < .5:
                b["neg"] = True
            bounds.append(dict(k="l", var=v, lo=b))
            if r.random() < .15:
                bounds.append(dict(k="l", var=v, lo=bval("lo")))
        else:
            a, b = bval("lo"), bval("up")
            if bnum(a) > bnum(b):
                if a["inf"] or b["inf"]:
                    a, b = bval("lo", False), bval("up", False)
                if bnum(a) > bnum(b):
                    a, b = dict(b), dict(a)
            bounds.append(dict(k="lu", var=v, lo=a, up=b))
    r.shuffle(bounds)
    ints = [v for v in names if r.random() < .2]
    # an integer column WITHOUT any bound line is binary; one with an explicit infinite upper bound is a general integer: both shapes must occur
    bounded = {b["var"] for b in bounds}
    for v in ints:
        if v not in bounded and r.random() < .5:
            bounds.insert(r.randint(0, len(bounds)), dict(k="u", var=v, up=dict(neg=False, inf=True, lit=[])))
        elif v not in bounded and r.random() < .6:
            lit = lambda t, neg=False: dict(neg=neg, inf=False, lit=chars(t))
            shape = r.choice([dict(k="lu", var=v, lo=lit("1", True), up=lit("1")),                       # -1 <= v <= 1
                              dict(k="lu", var=v, lo=dict(neg=True, inf=True, lit=[]), up=lit("1")),     # -inf <= v <= 1
                              dict(k="lu", var=v, lo=lit("0"), up=lit("1")),                             # explicit binary
                              dict(k="lu", var=v, lo=lit("2"), up=lit("5")),
                              dict(k="lu", var=v, lo=lit("1"), up=lit("1"))])                            # fixed at 1
            bounds.insert(r.randint(0, len(bounds)), shape)
    return dict(minmax=r.choice(["MAX", "MAXIMUM", "MAXIMIZE", "MIN", "MINIMUM", "MINIMIZE"]),
                obj=dict(name=("" if r.random() < .5 else "cost"), terms=obj), rows=rows, bounds=bounds, ints=ints)


def _case(r, w):
    k = r.random()
    return w.upper() if k < .3 else (w.lower() if k < .6 else w.capitalize())


def render_lp(tree, r):
    sp = lambda: " " * r.randint(1, 3)
    osp = lambda: " " * r.randint(0, 2)
    out = []
    if r.random() < .3:
        out.append("\\ generated file" + "\n")
    if r.random() < .3:
        out.append(_case(r, r.choice(["Problem", "Prob"])) + sp() + "gen_prob\n")
    out.append(_case(r, tree["minmax"]) + "\n")

    def bstr(b):
        if b["inf"]:
            # (the reader only recognises the infinity keyword when it is followed by white space)
            return ("-" if b["neg"] else r.choice(["", "+"])) + _case(r, r.choice(["inf", "infinity"])) + " "
        return ("-" if b["neg"] else "") + "".join(b["lit"])

    def comment():
        # comments may contain anything: colons, keywords, operators, numbers
        return "\\" + r.choice([" a comment", " note: see c_1: x + y >= 2", " End", "st", " 1/0 <= free", ": : :", " bounds x <= 4 \\ nested", ""]) 

    def expr(terms):
        s = ""
        cnt = 0
        for k, t in enumerate(terms):
            if t["neg"]:
                s += osp() + "-" + osp()
            elif k > 0 or r.random() < .3:
                s += osp() + "+" + osp()
            else:
                s += sp()
            if t["coef"]:
                s += "".join(t["coef"]) + sp()
            s += t["var"]
            cnt += 1
            if cnt % r.randint(2, 5) == 0 and k + 1 < len(terms):
                if r.random() < .15:
                    s += osp() + comment()          # comment directly after a name
                s += "\n" + sp()
                if r.random() < .2:
                    s += comment() + "\n" + sp()
        return s
    o = tree["obj"]
    out.append(sp() + (o["name"] + ":" if o["name"] else "") + expr(o["terms"]) + "\n")
    out.append(r.choice(["Subject To", "SUBJECT TO", "subject to", "ST", "st", "St"]) + "\n")
    for rw in tree["rows"]:
        out.append(sp() + (rw["name"] + ":" if rw["name"] else "") + expr(rw["terms"]) + osp() + rw["op"] + osp() + ("-" if rw["rneg"] else "") + "".join(rw["rhs"])
                   + (osp() + comment() if r.random() < .2 else "") + "\n")
        if r.random() < .15:
            out.append(comment() + "\n")
    if tree["bounds"]:
        out.append(_case(r, r.choice(["Bounds", "Bound"])) + "\n")
        for b in tree["bounds"]:
            if b["k"] == "free":
                out.append(sp() + b["var"] + sp() + _case(r, "free") + "\n")
            elif b["k"] == "fix":
                out.append(sp() + b["var"] + osp() + "=" + osp() + bstr(b["v"]) + "\n")
            elif b["k"] == "u":
                out.append(sp() + b["var"] + osp() + "<=" + osp() + bstr(b["up"]) + "\n")
            elif b["k"] == "l":
                out.append(sp() + bstr(b["lo"]) + osp() + "<=" + osp() + b["var"] + "\n")
            else:
                out.append(sp() + bstr(b["lo"]) + osp() + "<=" + osp() + b["var"] + osp() + "<=" + osp() + bstr(b["up"]) + "\n")
    if tree["ints"]:
        out.append(_case(r, r.choice(["Integer", "Integer", "Int"])) + "\n")
        out.append(sp() + (" ".join(tree["ints"])) + "\n")
    out.append(_case(r, "End") + "\n")
    return "".join(out)


def known_free_case():
    """regression scenario for the known reader defect: a bound line `lo <= x` followed by a line that starts with a name beginning with "free" """
    t = lambda neg, coef, var: dict(neg=neg, coef=chars(coef) if coef else [], var=var)
    tree = dict(minmax="MINIMIZE", obj=dict(name="obj", terms=[t(False, "", "x1"), t(False, "", "free13")]),
                rows=[dict(name="c1", terms=[t(False, "", "x1"), t(False, "", "free13")], op=">=", rneg=False, rhs=chars("1"))],
                bounds=[dict(k="l", var="x1", lo=dict(neg=False, inf=False, lit=chars("1"))), dict(k="fix", var="free13", v=dict(neg=False, inf=False, lit=chars("5")))], ints=[])
    body = "Minimize\n obj: x1 + free13\nSubject To\n c1: x1 + free13 >= 1\nBounds\n 1 <= x1\n free13 = 5\nEnd\n"
    lines = ["scenario denLP_known_free_prefix", "handler on", "read_prob h0 den_known_free.lp LP", "dump h0",
             hist.raw(dict(call="expect_lp", h="h0", fmt="LP", tree=tree, props=["C10"])), "free h0"]
    return "\n".join(lines) + "\n", {"den_known_free.lp": body}


def denote_scenarios(seed, count, fmt="LP", big_every=5):
    """C10: (text, files): scenarios 'read the generated file, dump, expect the denoted problem, solve' """
    r = random.Random(seed)
    texts, files = [], {}
    for k in range(count):
        if fmt == "LP":
            tree = lp_tree(r, big=(k % big_every == 0))
            body = render_lp(tree, r)
            fn = "den_%d_%d.lp" % (seed, k)
        else:
            tree = mps_tree(r, big=(k % big_every == 0))
            body = render_mps(tree, r)
            fn = "den_%d_%d.mps" % (seed, k)
        files[fn] = body
        lines = ["scenario den%s_%d_%d" % (fmt, seed, k), "handler on", "read_prob h0 %s %s" % (fn, fmt), "dump h0",
                 hist.raw(dict(call="expect_lp", h="h0", fmt=fmt, tree=tree, props=["C10"])),
                 "set_param h0 5 20000", "exact h0 primal - 1", "sol h0", "free h0"]      # (iteration limit: the solve is a smoke test here, not the subject)
        texts.append("\n".join(lines) + "\n")
    return "".join(texts), files


# ------------------------------------------------------------------------------------------------ MPS
def mps_tree(r, big=False):
    n = r.randint(1, 6)
    m = r.randint(1, 5)
    cols = [var_name(r, k).replace("#", "h").replace("$", "d").replace("!", "b") for k in range(n)]
    rows = [dict(t=r.choice("LGE"), name="r%d%s" % (i, r.choice(["", "x", "_a"]))) for i in range(m)]
    objrow = "COST"
    extra_n = ["FREEROW"] if r.random() < .2 else []
    num = lambda: chars(("-" if r.random() < .35 else "") + spell_number(r, big))
    entries = []     # (col, [(row, val)]) in column order; a column may have several lines, entries for the same (col,row) add up
    for c in cols:
        rs = [objrow] * (r.random() < .7) + [rw["name"] for rw in rows if r.random() < .6]
        if not rs:
            rs = [r.choice(rows)["name"]]
        if r.random() < .15:
            rs.append(r.choice(rs))        # repeated entry: adds up
        ent = [(x, num()) for x in rs]
        for fr in extra_n:
            if r.random() < .5:
                ent.append((fr, num()))
        entries.append(dict(col=c, ent=[dict(row=a, val=b) for a, b in ent], integer=r.random() < .2))
    rhs = [dict(row=rw["name"], val=num()) for rw in rows if r.random() < .7]
    ranges = [dict(row=rw["name"], val=num()) for rw in rows if r.random() < .35]
    bounds = []
    for c in cols:
        k = r.random()
        if k < .35:
            continue
        t = r.choice(["UP", "LO", "FX", "FR", "MI", "PL", "BV", "LI", "UI"])
        bounds.append(dict(t=t, col=c, val=num() if t in ("UP", "LO", "FX", "LI", "UI") else []))
        if r.random() < .15 and t in ("UP", "LO"):
            bounds.append(dict(t=t, col=c, val=num()))       # second definition of the same side: the first one wins
        if t == "LI" and bounds[-1]["val"] and lit_value("".join(bounds[-1]["val"])) > 0 and r.random() < .5:
            bounds[-1]["val"] = chars("-" + "".join(bounds[-1]["val"]).lstrip("-"))
    # integer columns: the shapes around the "an integer column without bounds is binary" rule
    bcols = {b["col"] for b in bounds}
    for e in entries:
        if e["integer"] and e["col"] not in bcols and r.random() < .6:
            sh = r.choice(["t", "mi1", "b01", "25", "pl", "lo0"])
            c = e["col"]
            if sh == "t":
                bounds += [dict(t="LO", col=c, val=chars("-1")), dict(t="UP", col=c, val=chars("1"))]
            elif sh == "mi1":
                bounds += [dict(t="MI", col=c, val=[]), dict(t="UP", col=c, val=chars("1"))]
            elif sh == "b01":
                bounds += [dict(t="LO", col=c, val=chars("0")), dict(t="UP", col=c, val=chars("1"))]
            elif sh == "25":
                bounds += [dict(t="LO", col=c, val=chars("2")), dict(t="UP", col=c, val=chars("5"))]
            elif sh == "pl":
                bounds += [dict(t="PL", col=c, val=[])]
            else:
                bounds += [dict(t="LO", col=c, val=chars("0"))]
    # OBJNAME section: names the N row that is the objective (otherwise the first N row of the ROWS section is)
    objname = ""
    k = r.random()
    if k < .15:
        objname = objrow
    elif k < .3 and extra_n:
        objname = extra_n[0]
    # a file in which no column has an entry in the objective or a constraint row has no variables: the reader rejects it
    # ("There are no variables") - outside the language of problem files
    real = {rw["name"] for rw in rows}
    if not any(e["row"] in real or e["row"] == (objname or objrow) for c in entries for e in c["ent"]):
        objname = ""
    # SOS sets (marker lines around groups of columns) and a REFROW section: they restrict integer solutions only, the LP is unchanged
    sos, refrow = [], ""
    if len(cols) >= 2 and r.random() < .2:
        a = r.randrange(len(cols) - 1)
        b = r.randint(a + 1, len(cols) - 1)
        sos.append(dict(a=a, b=b, t=r.choice(["S1", "S2"])))
        if b + 2 < len(cols) and r.random() < .4:
            sos.append(dict(a=b + 1, b=len(cols) - 1, t=r.choice(["S1", "S2"])))
        if r.random() < .4:
            refrow = r.choice(rows)["name"]
        # rules of the reader (rawlp.c ILLcheck_rawlpdata): members are not integer variables; inside a set the weights -
        # the members' coefficients in the REFROW row - are pairwise different
        members = [k for d in sos for k in range(d["a"], d["b"] + 1)]
        intb = {b["col"] for b in bounds if b["t"] in ("BV", "LI", "UI")}
        for w, k in enumerate(members):
            entries[k]["integer"] = False
            if refrow:
                entries[k]["ent"] = [e for e in entries[k]["ent"] if e["row"] != refrow] + [dict(row=refrow, val=chars(str(w + 1 + r.randint(0, 0))))]
        bounds = [b for b in bounds if not (b["col"] in {entries[k]["col"] for k in members} and b["t"] in ("BV", "LI", "UI"))]
    elif r.random() < .1:
        refrow = r.choice(rows)["name"]           # a REFROW section without SOS sets is legal and means nothing
    return dict(name="GENMPS", objsense=r.choice(["", "MAX", "MIN", "MAXIMIZE", "MINIMIZE"]), objname=objname, objrow=objrow, nrows=extra_n, rows=rows, cols=entries,
                rhs=rhs, ranges=ranges, bounds=bounds, sos=sos, refrow=refrow)


def render_mps(tree, r):
    sp = lambda: " " * r.randint(1, 4)
    out = []
    if r.random() < .3:
        out.append("* generated\n")
    out.append("NAME" + sp() + tree["name"] + "\n")
    if tree["objsense"]:
        out.append("OBJSENSE\n" + sp() + (tree["objsense"] if r.random() < .5 else (tree["objsense"].lower() if r.random() < .5 else tree["objsense"].capitalize())) + "\n")
    if tree.get("objname"):
        out.append("OBJNAME\n" + sp() + tree["objname"] + "\n")
    if tree.get("refrow"):
        out.append("REFROW\n" + sp() + tree["refrow"] + "\n")
    out.append("ROWS\n")
    out.append(sp() + "N" + sp() + tree["objrow"] + "\n")
    for rw in tree["rows"]:
        out.append(sp() + rw["t"] + sp() + rw["name"] + "\n")
    for nm in tree["nrows"]:
        out.append(sp() + "N" + sp() + nm + "\n")
    out.append("COLUMNS\n")
    inint = False
    mk = 0
    sos_open = {d["a"]: d for d in tree.get("sos", [])}
    sos_close = {d["b"] for d in tree.get("sos", [])}
    for ci, c in enumerate(tree["cols"]):
        if ci in sos_open:
            mk += 1
            out.append(sp() + sos_open[ci]["t"] + sp() + "SOS%d" % mk + sp() + "'MARKER'" + sp() + "'SOSORG'" + "\n")
        if c["integer"] != inint:
            mk += 1
            out.append(sp() + "M%d" % mk + sp() + "'MARKER'" + sp() + ("'INTORG'" if c["integer"] else "'INTEND'") + "\n")
            inint = c["integer"]
        ent = c["ent"]
        i = 0
        while i < len(ent):
            two = i + 1 < len(ent) and r.random() < .5
            line = sp() + c["col"] + sp() + ent[i]["row"] + sp() + "".join(ent[i]["val"])
            if two:
                line += sp() + ent[i + 1]["row"] + sp() + "".join(ent[i + 1]["val"])
                i += 1
            out.append(line + "\n")
            i += 1
        if r.random() < .1:
            out.append("* a comment line\n")
        if ci in sos_close:
            mk += 1
            out.append(sp() + "SOS%d" % mk + sp() + "'MARKER'" + sp() + "'SOSEND'" + "\n")
    if inint:
        out.append(sp() + "MEND" + sp() + "'MARKER'" + sp() + "'INTEND'" + "\n")
    if tree["rhs"]:
        out.append("RHS\n")
        for e in tree["rhs"]:
            out.append(sp() + "RHS1" + sp() + e["row"] + sp() + "".join(e["val"]) + "\n")
    if tree["ranges"]:
        out.append("RANGES\n")
        for e in tree["ranges"]:
            out.append(sp() + "RNG1" + sp() + e["row"] + sp() + "".join(e["val"]) + "\n")
    if tree["bounds"]:
        out.append("BOUNDS\n")
        for b in tree["bounds"]:
            out.append(sp() + b["t"] + sp() + "BND1" + sp() + b["col"] + (sp() + "".join(b["val"]) if b["val"] else "") + "\n")
    out.append("ENDATA\n")
    return "".join(out)


# ------------------------------------------------------------------------------------------------ C08 / C09 round trips
ODD_NAMES = ["2y", ".p", "a b", "x[1]", "c", "x", "x_", "c1", "obj", "1a"]


def roundtrip_scenario(lp, sid, r, fmt, ext=""):
    """write the API-built problem, read it back, compare (rt_check), solve both, compare answers"""
    f = "rt_%s.%s%s" % (sid, fmt.lower(), ext)
    lines = ["scenario %s" % sid, "handler on"] + lpfam.build_cmds(lp, "h0", r.choice(lpfam.BUILD_MODES)) + ["dump h0"]
    for j in lp.get("ints", []):
        pass
    lines += ["write_prob h0 %s %s" % (f, fmt), "read_prob h1 %s %s" % (f, fmt), "dump h1",
              hist.raw(dict(call="rt_check", h="h0", h2="h1", fmt=fmt, props=["C08" if fmt == "LP" else "C09"])),
              "exact h0 primal - 1", "exact h1 dual - 1", hist.raw(dict(call="eq_answer", h="h0", h2="h1", props=["C08" if fmt == "LP" else "C09"])),
              "free h0", "free h1"]
    return "\n".join(lines) + "\n"


def rename_lp(r):
    """a small problem some of whose names are NOT valid in LP format (leading digit or '.', characters outside the alphabet) or clash
    with the names the writer's repair generates (x<k>, x_<k>, x<k>_0, c<k>, ...): C08 'names needing repair or clashing with generated names'"""
    for _ in range(50):
        lp = lpfam.family(r.choice(["boxed", "fixedcols", "random", "feasible", "degenerate"]), r)
        if usable_for_roundtrip(lp) and all(F(v) >= 0 for v in lp["range"]) and lp["n"] <= 12 and lp["m"] <= 10:
            break
    else:
        lp = lpfam.feasible_bounded(r, 2, 3)
        for j in range(lp["n"]):
            lp["obj"][j] = F(j + 1)
    keep = [i for i in range(lp["m"]) if any(v != 0 for _, v in lp["A"][i])]
    for k in ("A", "sense", "rhs", "range", "rname"):
        lp[k] = [lp[k][i] for i in keep]
    lp["m"] = len(keep)

    def names(n, pref, valid):
        out = []
        for k in range(n):
            for _ in range(40):
                q = r.random()
                t = r.randrange(max(n, 3))
                if q < .3:
                    nm = "%s%d" % (valid, k)
                elif q < .65:
                    nm = r.choice(["%d", "%dx", ".%d", "a:%d", "x+%d", "[%d]", "x*%d", "x^%d", "a<%d", "%d.5", "0%d", "x=%d", "-%d", "a>%d"]) % t
                else:
                    nm = r.choice(["%s%d", "%s_%d", "%s%d_0", "%s%d_1", "%s_%d_0"]) % (pref, t)
                if nm not in out and nm != "obj":
                    out.append(nm)
                    break
            else:
                out.append("%s%d" % (valid, k))
        return out
    lp["cname"] = names(lp["n"], "x", "v")
    if r.random() < .5:
        lp["rname"] = names(lp["m"], "c", "r")
    return lp


def rename_scenario(lp, sid, r):
    f = "rn_%s.lp" % sid
    lines = ["scenario %s" % sid, "handler on"] + lpfam.build_cmds(lp, "h0", r.choice(lpfam.BUILD_MODES)) + ["dump h0"]
    lines += ["write_prob h0 %s LP" % f, "read_prob h1 %s LP" % f, "dump h1",
              hist.raw(dict(call="rt_check", h="h0", h2="h1", fmt="LP", rename="obj", props=["C08"])),
              "exact h0 primal - 1", "exact h1 dual - 1", hist.raw(dict(call="eq_answer", h="h0", h2="h1", props=["C08"])),
              "free h0", "free h1"]
    return "\n".join(lines) + "\n"


def chain_scenario(lp, sid, r):
    """LP -> MPS -> LP and MPS -> LP -> MPS chains: each hop must preserve the problem (C09)"""
    a, b, c = "ch_%s_1.lp" % sid, "ch_%s_2.mps" % sid, "ch_%s_3.lp" % sid
    d, e, f = "ch_%s_4.mps" % sid, "ch_%s_5.lp" % sid, "ch_%s_6.mps" % sid
    lines = ["scenario %s" % sid, "handler on"] + lpfam.build_cmds(lp, "h0", "load") + ["dump h0",
             "write_prob h0 %s LP" % a, "read_prob h1 %s LP" % a, "dump h1", "write_prob h1 %s MPS" % b, "read_prob h2 %s MPS" % b, "dump h2",
             "write_prob h2 %s LP" % c, "read_prob h3 %s LP" % c, "dump h3",
             hist.raw(dict(call="rt_check", h="h1", h2="h2", fmt="MPS", props=["C09"])), hist.raw(dict(call="rt_check", h="h2", h2="h3", fmt="LP", props=["C09"])),
             "write_prob h0 %s MPS" % d, "read_prob h4 %s MPS" % d, "dump h4", "write_prob h4 %s LP" % e, "read_prob h5 %s LP" % e, "dump h5",
             "write_prob h5 %s MPS" % f, "read_prob h6 %s MPS" % f, "dump h6",
             hist.raw(dict(call="rt_check", h="h0", h2="h4", fmt="MPS", props=["C09"])), hist.raw(dict(call="rt_check", h="h4", h2="h5", fmt="LP", props=["C09"])),
             hist.raw(dict(call="rt_check", h="h5", h2="h6", fmt="MPS", props=["C09"])),
             "exact h0 primal - 1", "exact h3 dual - 1", hist.raw(dict(call="eq_answer", h="h0", h2="h3", props=["C09"])),
             "exact h6 primal - 1", hist.raw(dict(call="eq_answer", h="h0", h2="h6", props=["C09"]))]
    lines += ["free h%d" % k for k in range(7)]
    return "\n".join(lines) + "\n"


def usable_for_roundtrip(lp):
    """precondition of C08/C09: every column has a non-zero coefficient in the objective or a row; at least one non-empty row"""
    used = {j for row in lp["A"] for j, v in row if v != 0} | {j for j in range(lp["n"]) if lp["obj"][j] != 0}
    return lp["n"] > 0 and len(used) == lp["n"] and any(any(v != 0 for _, v in row) for row in lp["A"])


def wide_lp(r):
    """many columns, long coefficients, some columns absent from the objective: expressions that wrap lines in the writers"""
    n = r.randint(6, 30)
    m = r.randint(2, 4)
    lp = lpfam.feasible_bounded(r, m, n)
    long = r.random() < .6
    for j in range(n):
        if r.random() < .35:
            lp["obj"][j] = F(0)
        elif long:
            lp["obj"][j] = F(r.choice([1, -1]) * (r.getrandbits(r.choice([60, 200, 400])) + 1), r.getrandbits(r.choice([1, 60, 200])) + 1)
    for i in range(m):
        lp["A"][i] = [(j, (F(r.getrandbits(150) + 1, r.getrandbits(100) + 1) if long and r.random() < .5 else v)) for j, v in lp["A"][i] if r.random() < .8]
    for j in range(n):          # precondition: every column is used somewhere
        if lp["obj"][j] == 0 and not any(jj == j and v != 0 for row in lp["A"] for jj, v in row):
            lp["A"][r.randrange(m)].append((j, F(r.choice([1, 2, -3]))))
    for i in range(m):
        lp["A"][i].sort()
    if r.random() < .5:
        lp["cname"] = ["%s%d" % (r.choice(["x", "longer_name_", "v" * 20 + "_", "c"]), j) for j in range(n)]
    return lp


def rt_lp(r, big=False):
    wide = None
    if r.random() < .15:
        wide = wide_lp(r)
        if not usable_for_roundtrip(wide):
            wide = None
    for _ in range(50):
        if wide is not None:
            lp = wide
            big = False
            break
        lp = lpfam.family(r.choice(["boxed", "fixedcols", "random", "feasible", "special", "degenerate"]), r)
        if usable_for_roundtrip(lp) and all(F(v) >= 0 for v in lp["range"]):
            break
    else:
        lp = lpfam.feasible_bounded(r, 2, 2)
        for j in range(lp["n"]):
            lp["obj"][j] = F(j + 1)
    # empty rows are dropped by the writers (the property says so); an empty row with an unsatisfiable right-hand side
    # would make "consequently the same status" false for a reason the property itself excludes: keep non-empty rows only
    keep = [i for i in range(lp["m"]) if any(v != 0 for _, v in lp["A"][i])]
    if len(keep) != lp["m"]:
        for k in ("A", "sense", "rhs", "range", "rname"):
            lp[k] = [lp[k][i] for i in keep]
        lp["m"] = len(keep)
    if big:
        i = r.randrange(lp["m"])
        if lp["A"][i]:
            j, v = lp["A"][i][0]
            lp["A"][i][0] = (j, F(r.getrandbits(900) + 1, r.getrandbits(700) + 1))
        lp["obj"][0] = F(-(r.getrandbits(300) + 1), 10 ** 50 + 1)
        if r.random() < .25:
            # numbers whose text is longer than any fixed I/O buffer (6000-digit numerator and denominator, moderate magnitude)
            i = r.randrange(lp["m"])
            if lp["A"][i]:
                j, v = lp["A"][i][-1]
                lp["A"][i][-1] = (j, F(r.getrandbits(20000) + 1, r.getrandbits(19900) + 1))
            lp["rhs"][r.randrange(lp["m"])] += F(1, r.getrandbits(15000) + 2)
    # names made of every character the LP format allows in a name (no repair needed): % ! # $ & ( ) / , ; ? @ _ ` ' { } | ~ "
    if r.random() < .25:
        odd = ["x%d", "p%s_", "a%%b", "q#", "n~", "m|x", "{k}", "u$", "w&w", "t(1)", "s/2", "c,c", "d;d", "e?", "f@", "g`", "h'", "i!", "j_%n", "Z\"q\""]
        lp["cname"] = ["%s%d" % (r.choice(odd), j) for j in range(lp["n"])]
        if r.random() < .5:
            lp["rname"] = ["%s%d" % (r.choice(odd), i) for i in range(lp["m"])]
    return lp


# ------------------------------------------------------------------------------------------------ C11 mutations
PATHOLOGICAL = ["1/0", "0/0", "1e9999", "1e-9999", "-----5", "+-+-3", "1.2.3", "1e", "e5", ".", "/", "1/", "/2", "9" * 400, "0." + "0" * 300 + "1",
                "1e5.3", "--", "1/2/3", "inf", "-inf", "1e+", "0x1F", "NaN", "\x00", "\x7f", "%s%n%d", "\\", ":", "::", "<=", "=", ">", "free", "end", "st", "bounds"]


def mutate_tokens(text, r):
    lines = text.split("\n")
    toks = [ln.split(" ") for ln in lines]
    flat = [(i, j) for i, t in enumerate(toks) for j, w in enumerate(t) if w]
    if not flat:
        return text
    for _ in range(r.randint(1, 3)):
        i, j = r.choice(flat)
        k = r.random()
        if k < .2:
            toks[i][j] = ""
        elif k < .35:
            toks[i][j] = toks[i][j] + " " + toks[i][j]
        elif k < .5:
            i2, j2 = r.choice(flat)
            toks[i][j], toks[i2][j2] = toks[i2][j2], toks[i][j]
        elif k < .8:
            toks[i][j] = r.choice(PATHOLOGICAL)
        elif k < .9:
            toks[i][j] = r.choice(["ROWS", "COLUMNS", "RHS", "BOUNDS", "ENDATA", "RANGES", "Subject To", "Bounds", "End", "Minimize", "Integer", "NAME", "OBJSENSE"])
        else:
            toks[i][j] = ("n" * r.choice([300, 5000, 140000]))
    return "\n".join(" ".join(t) for t in toks)


def mutate_bytes(data, r):
    b = bytearray(data)
    k = r.random()
    if k < .3 and b:
        return bytes(b[: r.randrange(len(b))])         # truncation
    for _ in range(r.randint(1, 8)):
        if not b:
            break
        p = r.randrange(len(b))
        q = r.random()
        if q < .4:
            b[p] = r.randrange(256)
        elif q < .6:
            b[p:p] = bytes([r.choice([0, 1, 9, 10, 13, 127, 255, 32, 58, 92])]) * r.randint(1, 4)
        elif q < .8:
            del b[p:p + r.randint(1, 10)]
        else:
            b[p:p] = b[max(0, p - 40):p]
    return bytes(b)


SECTION_HEADS = ("NAME", "OBJSENSE", "OBJSENSE", "OBJNAME", "ROWS", "COLUMNS", "RHS", "RANGES", "BOUNDS", "ENDATA", "REFROW",
                 "MINIMIZE", "MAXIMIZE", "MINIMUM", "MAXIMUM", "MIN", "MAX", "SUBJECT TO", "ST", "S.T.", "SUCH THAT", "BOUNDS", "BOUND", "INTEGER", "INTEGERS", "GENERAL",
                 "GENERALS", "BINARY", "BINARIES", "END", "PROBLEM")


def mutate_sections(text, r):
    """structure-level mutations: whole sections (header line + its data lines) are repeated, moved in front of the sections they
    depend on, dropped or swapped - the order rules of the readers are state machines of their own"""
    lines = text.split("\n")
    secs, cur = [], []
    for ln in lines:
        head = ln.strip().upper()
        first = head.split(" ")[0] if head else ""
        is_head = bool(ln) and not ln[0].isspace() and (first in SECTION_HEADS or head in SECTION_HEADS)
        if is_head and cur:
            secs.append(cur); cur = []
        cur.append(ln)
    if cur:
        secs.append(cur)
    if len(secs) < 2:
        return text
    for _ in range(r.randint(1, 2)):
        k = r.random()
        i = r.randrange(len(secs))
        if k < .35:                                   # copy a section to an earlier place (before what it depends on) and keep the original
            secs.insert(r.randint(0, i), list(secs[i]))
        elif k < .55:                                 # repeat in place / later
            secs.insert(r.randint(i, len(secs)), list(secs[i]))
        elif k < .7:                                  # move
            x = secs.pop(i); secs.insert(r.randint(0, len(secs)), x)
        elif k < .8:
            secs.pop(i)
        elif k < .9:                                  # header only, copied elsewhere
            secs.insert(r.randint(0, len(secs)), [secs[i][0]])
        else:                                         # data lines of one section appended to another
            j = r.randrange(len(secs)); secs[j] = secs[j] + secs[i][1:]
        if not secs:
            break
    return "\n".join(ln for sc in secs for ln in sc)


def robustness_scenarios(seed, count):
    """C11: grammar-derived LP/MPS/basis files with token-level and byte-level mutations, truncations, long names, compressed variants"""
    import gzip, bz2
    r = random.Random(seed)
    texts, files = [], {}
    base_lp = "Minimize\n obj: x + 2 y\nSubject To\n c1: x + y >= 1\n c2: x - y <= 3\nBounds\n x <= 4\nEnd\n"
    for k in range(count):
        kind = r.choice(["LP", "LP", "MPS", "MPS", "BAS"])
        if kind == "LP":
            body = render_lp(lp_tree(r, big=(k % 7 == 0)), r)
        elif kind == "MPS":
            t = mps_tree(r, big=(k % 7 == 0))
            if r.random() < .15:
                # structure the grammar-level generator never produces: the objective is declared to be one of the constraint rows
                # (legal for the reader: "Making objective row a N-row"; with RANGES / RHS entries on that row it must fail cleanly)
                t["objname"] = r.choice(t["rows"])["name"]
                if r.random() < .6 and not any(e["row"] == t["objname"] for e in t["ranges"]):
                    t["ranges"].append(dict(row=t["objname"], val=chars(r.choice(["3", "-2", "0"]))))
            body = render_mps(t, r)
        else:
            # basis files for rob_base.lp (columns x, y; rows c1, c2): a valid record set for a random basis, then structural edits of
            # the record list (a basic column demoted by a later LL/UL record, repeated rows / columns, unknown names, dropped records)
            cols_, rows_ = ["x", "y"], ["c1", "c2"]
            nb = r.randint(0, 2)
            bc = r.sample(cols_, nb)
            br = r.sample(rows_, nb)
            recs = [" %s %s %s" % (r.choice(["XU", "XL"]), c, w) for c, w in zip(bc, br)]
            recs += [" UL %s" % c for c in cols_ if c not in bc and r.random() < .5]
            for _ in range(r.choice([0, 0, 1, 1, 2])):
                e = r.random()
                if e < .3 and bc:
                    recs.append(" %s %s" % (r.choice(["LL", "UL"]), r.choice(bc)))                    # demote a basic column afterwards
                elif e < .45 and recs:
                    recs.insert(r.randint(0, len(recs)), r.choice(recs))                              # repeat a record
                elif e < .6:
                    recs.append(" %s %s %s" % (r.choice(["XU", "XL"]), r.choice(cols_), r.choice(rows_)))   # may reuse a row or a column
                elif e < .7:
                    recs.append(" %s %s %s" % (r.choice(["XU", "XL"]), r.choice(cols_ + ["nosuch"]), r.choice(rows_ + ["nosuch"])))
                elif e < .8 and recs:
                    recs.pop(r.randrange(len(recs)))
                else:
                    recs.append(" %s %s" % (r.choice(["LL", "UL"]), r.choice(cols_ + ["nosuch"])))
            body = "NAME b\n" + "\n".join(recs) + ("\n" if recs else "") + "ENDATA\n"
        m = r.random()
        if kind == "BAS" and m < .65:
            m = .95
        if m < .35:
            data = mutate_tokens(body, r).encode("latin-1", "replace")
        elif m < .55:
            data = mutate_sections(body, r).encode("latin-1", "replace")
            if r.random() < .3:
                data = mutate_tokens(data.decode("latin-1"), r).encode("latin-1", "replace")
        elif m < .9:
            data = mutate_bytes(body.encode(), r)
        else:
            data = body.encode()
        # the property excludes exponents of more than 4 digits (performance only): cut longer digit runs after e/E
        import re as _re
        data = _re.sub(rb"([eE][+-]?[0-9]{4})[0-9]+", rb"\1", data)
        # the scanner accumulates digit by digit (quadratic): a 140 000-digit literal takes minutes - a resource question like the
        # exponents, not a hang; digit runs are cut at 3000 digits
        data = _re.sub(rb"([0-9]{3000})[0-9]+", rb"\1", data)
        ext = {"LP": ".lp", "MPS": ".mps", "BAS": ".bas"}[kind]
        z = r.random()
        if z < .12 and kind != "BAS":
            data, ext = gzip.compress(data), ext + ".gz"
            if r.random() < .3:
                data = mutate_bytes(data, r)
        elif z < .2 and kind != "BAS":
            data, ext = bz2.compress(data), ext + ".bz2"
        fn = "rob_%d_%d%s" % (seed, k, ext)
        files[fn] = data
        sid = "rob_%s_%d_%d" % (kind, seed, k)
        if kind == "BAS":
            lines = ["scenario " + sid, "handler on", "read_prob h0 rob_base.lp LP", "dump h0", "read_basis h0 b0 " + fn, "read_and_load_basis h0 " + fn,
                     "opt_primal h0", "sol h0", "opt_dual h0", "sol h0", "free_basis b0", "free h0"]
        else:
            lines = ["scenario " + sid, "handler on", "read_prob h0 %s %s" % (fn, kind), "dump h0", "write_prob h0 robout_%d_%d.lp LP" % (seed, k),
                     "write_prob h0 robout_%d_%d.mps MPS" % (seed, k), "set_param h0 5 2000", r.choice(["exact h0 primal - 1", "opt_primal h0", "opt_dual h0"]), "sol h0", "dump h0", "free h0"]
        texts.append("\n".join(lines) + "\n")
    files["rob_base.lp"] = base_lp
    return "".join(texts), files


def mps_tree_roundtrippable(tree):
    """precondition of C08/C09 on a generated MPS tree: every column has a non-zero coefficient in the objective or a
    constraint row, and some constraint row is non-empty (generator-side helper, not an oracle)"""
    real = {rw["name"] for rw in tree["rows"]}
    anyrow = False
    for c in tree["cols"]:
        acc = {}
        for e in c["ent"]:
            if e["row"] in real or e["row"] == (tree.get("objname") or tree["objrow"]):
                acc[e["row"]] = acc.get(e["row"], 0) + lit_value("".join(e["val"]))
        if not any(v != 0 for v in acc.values()):
            return False
        if any(v != 0 and k in real for k, v in acc.items()):
            anyrow = True
    return anyrow


def lp_tree_roundtrippable(tree):
    """precondition of C08 on a generated LP tree: every column has a non-zero (summed) coefficient in the objective or a row,
    some row is non-empty after summation, no row sums to the empty row (generator-side helper, not an oracle)"""
    def coefs(terms):
        acc = {}
        for t in terms:
            v = lit_value("".join(t["coef"])) if t["coef"] else F(1)
            acc[t["var"]] = acc.get(t["var"], 0) + (-v if t["neg"] else v)
        return acc
    used = {v for v, c in coefs(tree["obj"]["terms"]).items() if c != 0}
    allv = {t["var"] for t in tree["obj"]["terms"]}
    for rw in tree["rows"]:
        c = coefs(rw["terms"])
        if not any(x != 0 for x in c.values()):
            return False
        used |= {v for v, x in c.items() if x != 0}
        allv |= set(c)
    return used == allv and len(tree["rows"]) > 0
