"""Seeded LP families (python dicts in the format of refsolve.py) and their rendering as driver commands."""
import random
from fractions import Fraction as F
from refsolve import INF, NINF, qstr, fin


def _mk(m, n, mx=False):
    return dict(m=m, n=n, A=[[] for _ in range(m)], sense=["L"] * m, rhs=[F(0)] * m, range=[F(0)] * m,
                obj=[F(0)] * n, lo=[F(0)] * n, up=[INF] * n, max=mx,
                rname=["r%d" % (i + 1) for i in range(m)], cname=["v%d" % (j + 1) for j in range(n)])


def _val(r, kind="small"):
    if kind == "small":
        return F(r.randint(-5, 5))
    if kind == "frac":
        return F(r.randint(-9, 9), r.choice([1, 2, 3, 7, 11, 13]))
    if kind == "prime":
        return F(r.choice([1, -1]) * r.choice([2, 3, 5, 7, 1009, 65537, 2**31 - 1]), r.choice([1, 3, 127, 8191, 2**17 - 1]))
    if kind == "huge":
        return F(r.choice([1, -1]) * r.randint(1, 9) * 10 ** r.randint(10, 30), 10 ** r.choice([0, 0, 20, 35]))
    return F(r.randint(-3, 3))


def _bounds(r, kind):
    k = r.random()
    if k < .4:
        return F(0), INF
    if k < .55:
        return NINF, INF
    if k < .65:
        v = _val(r, kind)
        return v, v
    if k < .75:
        return NINF, _val(r, kind)
    a, b = sorted([_val(r, kind), _val(r, kind)])
    if k < .85:
        return a, INF
    return a, b


def random_lp(r, m=None, n=None, kind=None, dens=None, ranges=True):
    m = m if m is not None else r.randint(1, 6)
    n = n if n is not None else r.randint(1, 6)
    kind = kind or r.choice(["small", "small", "frac", "prime", "huge"])
    dens = dens if dens is not None else r.choice([0.3, 0.6, 0.9])
    lp = _mk(m, n, r.random() < .5)
    for i in range(m):
        for j in range(n):
            if r.random() < dens:
                v = _val(r, kind)
                if v != 0:
                    lp["A"][i].append((j, v))
        lp["sense"][i] = r.choice("LGER" if ranges else "LGE")
        lp["rhs"][i] = _val(r, kind)
        if lp["sense"][i] == "R":
            lp["range"][i] = abs(_val(r, kind))
    for j in range(n):
        lp["obj"][j] = _val(r, kind)
        lp["lo"][j], lp["up"][j] = _bounds(r, kind)
    return lp


def feasible_bounded(r, m=None, n=None, kind="small"):
    """built around a known point so that it is feasible; boxed so that it is bounded"""
    m = m if m is not None else r.randint(1, 7)
    n = n if n is not None else r.randint(1, 7)
    lp = _mk(m, n, r.random() < .5)
    x0 = [_val(r, kind) for _ in range(n)]
    for j in range(n):
        lp["lo"][j] = x0[j] - abs(_val(r, kind)) if r.random() < .8 else x0[j]
        lp["up"][j] = x0[j] + abs(_val(r, kind))
        lp["obj"][j] = _val(r, kind)
    for i in range(m):
        for j in range(n):
            if r.random() < .6:
                v = _val(r, kind)
                if v:
                    lp["A"][i].append((j, v))
        act = sum(v * x0[j] for j, v in lp["A"][i])
        s = r.choice("LGER")
        lp["sense"][i] = s
        slackv = abs(_val(r, kind)) if r.random() < .6 else F(0)     # 0 => tight / degenerate
        if s == "L":
            lp["rhs"][i] = act + slackv
        elif s == "G":
            lp["rhs"][i] = act - slackv
        elif s == "E":
            lp["rhs"][i] = act
        else:
            lp["rhs"][i] = act - slackv
            lp["range"][i] = slackv + (abs(_val(r, kind)) if r.random() < .7 else F(0))
    return lp


def degenerate(r):
    lp = feasible_bounded(r, r.randint(3, 7), r.randint(2, 5))
    # duplicate / scaled rows, zero right-hand sides
    m = lp["m"]
    for k in range(r.randint(1, 3)):
        i = r.randrange(m)
        lam = F(r.choice([1, 2, 3]))
        lp["A"].append([(j, v * lam) for j, v in lp["A"][i]])
        lp["sense"].append(lp["sense"][i])
        lp["rhs"].append(lp["rhs"][i] * lam)
        lp["range"].append(lp["range"][i] * lam)
        lp["rname"].append("d%d" % k)
        lp["m"] += 1
    return lp


def infeasible_margin(r, eps_exp=None):
    """x + y <= b and x + y >= b + eps (eps = 10^-e), embedded in a random feasible system"""
    lp = feasible_bounded(r, r.randint(1, 4), r.randint(2, 5))
    n = lp["n"]
    e = eps_exp if eps_exp is not None else r.choice([1, 9, 20, 40])
    eps = F(1, 10 ** e)
    js = r.sample(range(n), 2)
    co = [(j, F(r.randint(1, 4))) for j in sorted(js)]
    b = _val(r, "frac")
    lp["A"] += [list(co), list(co)]
    lp["sense"] += ["L", "G"]
    lp["rhs"] += [b, b + eps]
    lp["range"] += [F(0), F(0)]
    lp["rname"] += ["inf_a", "inf_b"]
    lp["m"] += 2
    # free the variables so that bounds do not decide it
    for j in js:
        lp["lo"][j], lp["up"][j] = NINF, INF
    return lp


def tiny_cut(r):
    """the vertex the floating-point simplex will stop at is cut off by 10^-e: feasible LPs whose optimum differs from the
    "double" optimum by less than any tolerance (near-degenerate vertices, rows with basic slacks that are exactly violated)"""
    n = r.randint(2, 5)
    kind = r.choice(["box_sum", "box_sum_range", "linked_eq", "two_cuts", "eq_basic", "eq_basic"])
    e = r.choice([10, 11, 12, 13, 15, 20, 30])
    eps = F(1, 10 ** e) if r.random() < .6 else F(1, 2 ** r.choice([20, 24, 30, 40]))       # decimal or dyadic (exactly representable in a double)
    lp = _mk(0, n, True)
    for j in range(n):
        lp["lo"][j], lp["up"][j] = F(0), F(1)
        lp["obj"][j] = F(r.choice([1, 1, 2, 3]))

    def add(ent, sense, rhs, rng=F(0)):
        lp["A"].append(sorted(ent)); lp["sense"].append(sense); lp["rhs"].append(rhs); lp["range"].append(rng)
        lp["rname"].append("t%d" % (lp["m"] + 1)); lp["m"] += 1
    allj = [(j, F(1)) for j in range(n)]
    if kind == "box_sum":
        for j in range(n):
            if r.random() < .6:
                add([(j, F(1))], "L", F(1))
        add(allj, "L", F(n) - eps)
    elif kind == "box_sum_range":
        add(allj, "R", F(0), F(n) - eps)
    elif kind == "eq_basic":
        # an equality whose basic STRUCTURAL column ends up just outside its bound: max z, x + z = 1 - eps, x >= 0, 0 <= z <= 1
        lp["obj"] = [F(0)] * n
        lp["obj"][1] = F(1)
        lp["lo"][0], lp["up"][0] = F(0), INF
        add([(0, F(1)), (1, F(1))], "E", F(1) - eps)
        for j in range(2, n):
            add([(j, F(1)), (0, F(r.choice([0, 1])))], "L", F(2))
    elif kind == "linked_eq":
        lp["lo"][1], lp["up"][1] = NINF, INF
        lp["obj"] = [F(1)] + [F(0)] * (n - 1)
        add([(0, F(1)), (1, F(-1))], "E", F(0))
        add([(1, F(1))], "L", F(1) - eps)
    else:
        js = r.sample(range(n), 2)
        add([(j, F(1)) for j in js], "L", F(2) - eps)
        add(allj, "L", F(n) - eps / 3)
    if r.random() < .3:         # minimise the negated objective instead
        lp["obj"] = [-v for v in lp["obj"]]
        lp["max"] = False
    # kind "eq_logical" (added later): decided and built from a private generator so that the stream of `r`, and with it every
    # other LP of the seeded families, stays what it was
    import random as _random
    r2 = _random.Random("%d/%s/%s" % (n, eps, kind))
    if r2.random() < .3:
        return _eq_logical(r2, n, eps)
    return lp


def _eq_logical(r, n, eps):
    """an equality whose basic LOGICAL is just off zero at the slack basis the floating-point solve stops at:
    min c.x (c > 0), 0 <= x <= 1, sum +-x_j = +-eps  (x = 0 looks optimal and feasible to a double; the logical sits at +-eps)"""
    lp = _mk(0, n, False)
    for j in range(n):
        lp["lo"][j], lp["up"][j] = F(0), F(1)
        lp["obj"][j] = F(r.choice([1, 1, 2, 3]))
    sg = r.choice([1, 1, -1])
    js = r.sample(range(n), r.randint(1, n))
    rows = [(sorted((j, F(sg)) for j in js), "E", sg * eps)]
    if r.random() < .5:
        rows.append(([(j, F(1)) for j in range(n)], "L", F(n)))
    for ent, sense, rhs in rows:
        lp["A"].append(ent); lp["sense"].append(sense); lp["rhs"].append(rhs); lp["range"].append(F(0))
        lp["rname"].append("t%d" % (lp["m"] + 1)); lp["m"] += 1
    return lp


def face_only(r):
    """feasible only on a lower dimensional face: a <= s and a >= s for the same expression"""
    lp = feasible_bounded(r, r.randint(1, 4), r.randint(2, 5))
    i = r.randrange(lp["m"])
    if not lp["A"][i]:
        lp["A"][i] = [(0, F(1))]
    x_act = None
    # choose rhs so that both inequalities are tight at equality of an existing feasible row value
    lp["A"].append(list(lp["A"][i]))
    lp["A"].append(list(lp["A"][i]))
    # value inside the row's interval: use rhs of row i adjusted to a point the construction knows is feasible
    s = lp["sense"][i]
    v = lp["rhs"][i] if s in "LEG" else lp["rhs"][i]
    # make row i itself an equality at v to keep feasibility knowledge simple
    lp["sense"][i] = "E"
    lp["range"][i] = F(0)
    lp["sense"] += ["L", "G"]
    lp["rhs"] += [v, v]
    lp["range"] += [F(0), F(0)]
    lp["rname"] += ["face_a", "face_b"]
    lp["m"] += 2
    return lp


def unbounded(r):
    lp = feasible_bounded(r, r.randint(1, 4), r.randint(2, 5))
    j = r.randrange(lp["n"])
    # make column j a free direction that improves the objective and is not blocked: remove it from rows
    for i in range(lp["m"]):
        lp["A"][i] = [(k, v) for k, v in lp["A"][i] if k != j]
    if r.random() < .5:
        lp["lo"][j], lp["up"][j] = NINF, INF
        lp["obj"][j] = F(r.choice([-2, 3]))
    else:
        lp["up"][j] = INF
        lp["obj"][j] = F(3) if lp["max"] else F(-3)
    # optionally tie it to another variable through a row that does not block
    if r.random() < .5 and lp["n"] > 1:
        k = (j + 1) % lp["n"]
        lp["up"][k] = INF
        lp["A"].append([(min(j, k), F(1) if j < k else F(-1)), (max(j, k), F(-1) if j < k else F(1))])
        # x_j - x_k <= c : both can grow together
        lp["sense"].append("L")
        lp["rhs"].append(F(5))
        lp["range"].append(F(0))
        lp["rname"].append("tie")
        lp["m"] += 1
        for i in range(lp["m"] - 1):
            lp["A"][i] = [(c, v) for c, v in lp["A"][i] if c != k]
        lp["obj"][k] = F(0)
    return lp


def klee_minty(d):
    lp = _mk(d, d, True)
    for i in range(d):
        row = [(j, F(2 ** (i - j + 1))) for j in range(i)] + [(i, F(1))]
        lp["A"][i] = row
        lp["rhs"][i] = F(5 ** (i + 1))
        lp["obj"][i] = F(2 ** (d - i - 1))
    return lp


def beale():
    # Beale's cycling example
    lp = _mk(3, 4, False)
    lp["obj"] = [F(-3, 4), F(150), F(-1, 50), F(6)]
    lp["A"][0] = [(0, F(1, 4)), (1, F(-60)), (2, F(-1, 25)), (3, F(9))]
    lp["A"][1] = [(0, F(1, 2)), (1, F(-90)), (2, F(-1, 50)), (3, F(3))]
    lp["A"][2] = [(2, F(1))]
    lp["rhs"] = [F(0), F(0), F(1)]
    return lp


def special_shapes(r):
    """empty rows / columns, fixed and free variables, no rows, no columns"""
    k = r.randrange(6)
    if k == 0:
        lp = random_lp(r, 0, r.randint(1, 4))
    elif k == 1:
        lp = feasible_bounded(r, r.randint(1, 3), r.randint(1, 4))
        i = r.randrange(lp["m"])
        lp["A"][i] = []          # empty row: 0 sense rhs
    elif k == 2:
        lp = feasible_bounded(r, r.randint(1, 3), r.randint(2, 4))
        j = r.randrange(lp["n"])
        for i in range(lp["m"]):
            lp["A"][i] = [(c, v) for c, v in lp["A"][i] if c != j]      # empty column
    elif k == 3:
        lp = feasible_bounded(r)
        for j in range(lp["n"]):
            if r.random() < .5:
                lp["up"][j] = lp["lo"][j]      # fixed
    elif k == 4:
        lp = random_lp(r, r.randint(1, 4), r.randint(1, 4), kind="small")
        for j in range(lp["n"]):
            lp["lo"][j], lp["up"][j] = NINF, INF
    else:
        lp = random_lp(r, r.randint(1, 3), r.randint(1, 3), kind="small")
        lp["sense"] = ["R"] * lp["m"]
        lp["range"] = [F(0) if r.random() < .5 else F(r.randint(1, 4)) for _ in range(lp["m"])]
    return lp


def boxed(r):
    """small LPs dominated by boxed variables (often starting at their upper bound: |up| <= |lo|), free variables,
    equalities and range rows with +-1 / small coefficients: bound flips and dual bound-flipping ratio tests"""
    m, n = r.randint(1, 4), r.randint(2, 5)
    lp = _mk(m, n, r.random() < .5)
    for j in range(n):
        k = r.random()
        if k < .6:
            lo = F(r.randint(-6, 0)); up = F(r.randint(0, 4))
            if r.random() < .6 and abs(up) > abs(lo):
                lo, up = -up, -lo if lo != 0 else F(0)
                if lo > up:
                    lo, up = up, lo
            lp["lo"][j], lp["up"][j] = lo, up
        elif k < .8:
            lp["lo"][j], lp["up"][j] = NINF, INF
        else:
            lp["lo"][j], lp["up"][j] = F(0), INF
        lp["obj"][j] = F(r.randint(-3, 3))
    for i in range(m):
        for j in range(n):
            if r.random() < .65:
                lp["A"][i].append((j, F(r.choice([-2, -1, -1, 1, 1, 2]))))
        s = r.choice("LGERR")
        lp["sense"][i] = s
        lp["rhs"][i] = F(r.randint(-6, 8))
        if s == "R":
            lp["range"][i] = F(r.randint(0, 9))
    return lp


def fixedcols(r):
    """feasible bounded LP in which several columns are fixed at non-zero values and others are boxed"""
    lp = feasible_bounded(r, r.randint(1, 4), r.randint(2, 5), kind="small")
    for j in range(lp["n"]):
        if r.random() < .4:
            v = lp["lo"][j] if r.random() < .5 else lp["up"][j]
            if v == 0:
                v = F(r.choice([-3, -1, 2, 5]))
            lp["lo"][j] = lp["up"][j] = v
        if lp["obj"][j] == 0:
            lp["obj"][j] = F(r.choice([-2, 1, 3]))
    # right-hand sides were built around the old point; loosen the rows so that the LP stays feasible often
    for i in range(lp["m"]):
        if lp["sense"][i] == "E":
            lp["sense"][i] = r.choice("LG")
    return lp


FAMILIES = ["boxed", "fixedcols", "random", "feasible", "degenerate", "infeasible_margin", "face_only", "unbounded", "special", "klee_minty", "beale", "tiny_cut"]


def family(name, r):
    if name == "boxed":
        return boxed(r)
    if name == "fixedcols":
        return fixedcols(r)
    if name == "random":
        return random_lp(r)
    if name == "feasible":
        return feasible_bounded(r, kind=r.choice(["small", "frac", "prime", "huge"]))
    if name == "degenerate":
        return degenerate(r)
    if name == "infeasible_margin":
        return infeasible_margin(r)
    if name == "face_only":
        return face_only(r)
    if name == "tiny_cut":
        return tiny_cut(r)
    if name == "ranged_small":
        return ranged_small(r)
    if name == "unbounded":
        return unbounded(r)
    if name == "special":
        return special_shapes(r)
    if name == "klee_minty":
        return klee_minty(r.randint(2, 6))
    if name == "beale":
        return beale()
    raise ValueError(name)


# ------------------------------------------------------------------ rendering
def load_cmd(lp, h="h0"):
    """driver commands that build the LP: load (rows L/G/E and columns) + change to R + ranges"""
    m, n = lp["m"], lp["n"]
    sense = "max" if lp["max"] else "min"
    if m == 0 and n == 0:
        return ["create %s prob %s" % (h, sense)]
    cols = [[] for _ in range(n)]
    for i in range(m):
        for j, v in lp["A"][i]:
            cols[j].append((i, v))
    parts = ["load %s prob %d %d %s" % (h, n, m, sense)]
    for c in cols:
        parts.append("%d %s" % (len(c), " ".join("%d %s" % (i, qstr(v)) for i, v in c)))
    for j in range(n):
        parts.append("%s %s %s %s" % (qstr(lp["obj"][j]), qstr(lp["lo"][j]), qstr(lp["up"][j]), lp["cname"][j]))
    rng = [i for i in range(m) if lp["sense"][i] == "R"]
    for i in range(m):
        s = lp["sense"][i]
        parts.append("%s %s %s" % (qstr(lp["rhs"][i]), "G" if s == "R" else s, lp["rname"][i]))
    lines = ["  ".join(parts)]
    for i in rng:
        lines.append("change_sense %s %d R" % (h, i))
        lines.append("change_range %s %d %s" % (h, i, qstr(lp["range"][i])))
    return lines


def build_cmds(lp, h="h0", how="load"):
    """alternative construction through create + new_col + add_ranged_rows (exercises other paths)"""
    if how == "load":
        return load_cmd(lp, h)
    if how == "file":
        # the same problem, but the object comes from the MPS reader (row-wise matrix copy, names, raw-data leftovers)
        global _FILE_CTR
        if not file_origin_ok(lp):
            return load_cmd(lp, h)
        _FILE_CTR += 1
        fmt = "LP" if (lp_origin_ok(lp) and _FILE_CTR % 3 == 0) else "MPS"
        return load_cmd(lp, h) + via_file_cmds("b%d_%s" % (_FILE_CTR, h), h, fmt) + ["dump %s" % h]
    sense = "max" if lp["max"] else "min"
    lines = ["create %s prob %s" % (h, sense)]
    m, n = lp["m"], lp["n"]

    def addrow(i, upto):
        e = [(j, v) for j, v in lp["A"][i] if j < upto]
        lines.append("add_ranged_row %s %d %s %s %s %s %s" % (h, len(e), " ".join("%d %s" % (j, qstr(v)) for j, v in e),
                                                             qstr(lp["rhs"][i]), lp["sense"][i], qstr(lp["range"][i]), lp["rname"][i]))

    def addcol(j, rows):
        e = [(i, v) for i in rows for jj, v in lp["A"][i] if jj == j]
        if e:
            lines.append("add_col %s %d %s %s %s %s %s" % (h, len(e), " ".join("%d %s" % (i, qstr(v)) for i, v in e), qstr(lp["obj"][j]), qstr(lp["lo"][j]), qstr(lp["up"][j]), lp["cname"][j]))
        else:
            lines.append("new_col %s %s %s %s %s" % (h, qstr(lp["obj"][j]), qstr(lp["lo"][j]), qstr(lp["up"][j]), lp["cname"][j]))
    if how == "resense":                      # columns first, then every row with ANOTHER sense, then change_sense (+ change_range) to the wanted one:
        for j in range(n):                    # the internal logical column (coefficient, bounds) is rewritten by the edit, the query API only shows the sense
            addcol(j, [])
        first = {"L": "G", "G": "E", "E": "R", "R": "L"}
        for i in range(m):
            e = [(j, v) for j, v in lp["A"][i]]
            s0 = first[lp["sense"][i]]
            lines.append("add_ranged_row %s %d %s %s %s %s %s" % (h, len(e), " ".join("%d %s" % (j, qstr(v)) for j, v in e),
                                                                 qstr(lp["rhs"][i]), s0, qstr(F(3) if s0 == "R" else F(0)), lp["rname"][i]))
        for i in range(m):
            lines.append("change_sense %s %d %s" % (h, i, lp["sense"][i]))
            if lp["sense"][i] == "R":
                lines.append("change_range %s %d %s" % (h, i, qstr(lp["range"][i])))
        return lines
    if how == "create":                       # columns first, then rows: internal column k is structural k
        for j in range(n):
            addcol(j, [])
        for i in range(m):
            addrow(i, n)
    elif how == "rowsfirst":                  # rows first (their logicals get the low internal indices), then columns with their entries
        for i in range(m):
            addrow(i, 0)
        for j in range(n):
            addcol(j, range(m))
    else:                                     # "interleave": half of the rows, all columns, the remaining rows
        h1 = (m + 1) // 2
        for i in range(h1):
            addrow(i, 0)
        for j in range(n):
            addcol(j, range(h1))
        for i in range(h1, m):
            addrow(i, n)
    return lines


def wide_pricing(r):
    """many attractive columns at the slack basis (more than any fixed candidate bucket of a partial pricing scheme): max c.x,
    A x <= b with non-negative coefficients, 0 <= x <= u; 120-320 columns, 8-20 rows, about 80% of the costs positive"""
    m, n = r.randint(8, 20), r.choice([120, 140, 175, 210, 260, 320])
    lp = _mk(m, n, True)
    for j in range(n):
        lp["obj"][j] = F(r.randint(1, 9)) if r.random() < .8 else F(-r.randint(0, 4))
        lp["lo"][j], lp["up"][j] = F(0), F(r.randint(1, 5))
        for i in r.sample(range(m), 3):
            lp["A"][i].append((j, F(r.randint(1, 6))))
    for i in range(m):
        lp["A"][i].sort()
        lp["sense"][i] = "L"
        lp["rhs"][i] = F(r.randint(20, 90))
    return lp


def tall_pricing(r):
    """many primal infeasible rows at the (dual feasible) slack basis: min c.x with c > 0, a_i x >= b_i > 0; 120-300 rows, 8-20 columns"""
    m, n = r.choice([120, 140, 175, 210, 260, 300]), r.randint(8, 20)
    lp = _mk(m, n, False)
    for j in range(n):
        lp["obj"][j] = F(r.randint(1, 9))
        lp["lo"][j], lp["up"][j] = F(0), INF
    for i in range(m):
        for j in sorted(r.sample(range(n), 3)):
            lp["A"][i].append((j, F(r.randint(1, 6))))
        lp["sense"][i] = "G" if r.random() < .8 else "L"
        lp["rhs"][i] = F(r.randint(1, 30)) if lp["sense"][i] == "G" else F(r.randint(200, 400))
    return lp


def sparse_cover(r, m=None, n=None):
    """sparse covering LP (min c.x, c > 0, A x >= b > 0 with 3 positive entries per row, 0 <= x <= 10): always feasible and bounded,
    sparse enough for the row-wise pricing paths of the simplex"""
    m = m or r.randint(8, 14)
    n = n or r.randint(12, 20)
    lp = _mk(m, n, False)
    for j in range(n):
        lp["obj"][j] = F(r.randint(1, 7))
        lp["lo"][j], lp["up"][j] = F(0), F(10)
    for i in range(m):
        for j in sorted(r.sample(range(n), 3)):
            lp["A"][i].append((j, F(r.randint(1, 5))))
        lp["sense"][i] = "G"
        lp["rhs"][i] = F(r.randint(3, 11))
    used = {j for row in lp["A"] for j, v in row}
    for j in range(n):
        if j not in used:
            lp["A"][r.randrange(m)].append((j, F(1)))
    for row in lp["A"]:
        row.sort()
    return lp


def file_origin_ok(lp):
    """the problem survives a trip through an MPS file with identical shape (indices, names): no empty row, every column used, ranges >= 0"""
    used = {j for row in lp["A"] for j, v in row if v != 0} | {j for j in range(lp["n"]) if lp["obj"][j] != 0}
    return (lp["m"] > 0 and lp["n"] > 0 and len(used) == lp["n"] and all(any(v != 0 for _, v in row) for row in lp["A"])
            and all(F(v) >= 0 for v in lp["range"]) and len(set(lp["cname"])) == lp["n"] and len(set(lp["rname"])) == lp["m"])


def lp_origin_ok(lp):
    """the problem also keeps its shape through an LP-format file: the reader numbers the columns by first appearance (objective first), a
    ranged row would come back as two rows"""
    return file_origin_ok(lp) and all(v != 0 for v in lp["obj"]) and "R" not in lp["sense"]


def via_file_cmds(tag, h="h0", fmt="MPS"):
    """replace the API-built object by the same problem READ FROM A FILE: objects that come from the readers carry state the builders do
    not create (row-wise copy of the matrix, problem / objective names, raw-data leftovers)"""
    f = "fo_%s.%s" % (tag, fmt.lower())
    return ["write_prob %s %s %s" % (h, f, fmt), "free %s" % h, "read_prob %s %s %s" % (h, f, fmt)]


BUILD_MODES = ["load", "create", "rowsfirst", "interleave", "file"]
_FILE_CTR = 0


def witness_event(lp, w, h="h0"):
    if w["kind"] == "opt":
        return dict(call="witness", h=h, kind="opt", x=[qstr(v) for v in w["x"]], pi=[qstr(v) for v in w["pi"]])
    if w["kind"] == "inf":
        return dict(call="witness", h=h, kind="inf", y=[qstr(v) for v in w["y"]])
    if w["kind"] == "unb":
        return dict(call="witness", h=h, kind="unb", x=[qstr(v) for v in w["x"]], d=[qstr(v) for v in w["d"]])
    return None


def ranged_small(r):
    """small LPs in which most rows are ranged (non-degenerate ranges) and the columns mix [0,inf), free, boxed and upper-only bounds:
    every non-basic position has two sides somewhere (bases with rows and columns at upper)"""
    m, n = r.randint(1, 3), r.randint(1, 3)
    lp = _mk(m, n, r.random() < .5)
    for j in range(n):
        k = r.random()
        if k < .35:
            lp["lo"][j], lp["up"][j] = F(0), INF
        elif k < .5:
            lp["lo"][j], lp["up"][j] = NINF, INF
        elif k < .65:
            lp["lo"][j], lp["up"][j] = NINF, F(r.randint(0, 5))
        else:
            lo = F(r.randint(-4, 2)); lp["lo"][j], lp["up"][j] = lo, lo + F(r.randint(1, 6))
        lp["obj"][j] = F(r.randint(-3, 3))
    for i in range(m):
        for j in range(n):
            if r.random() < .75:
                lp["A"][i].append((j, F(r.choice([-2, -1, 1, 1, 2, 3]))))
        if not lp["A"][i]:
            lp["A"][i].append((r.randrange(n), F(1)))
        if r.random() < .75:
            lp["sense"][i] = "R"; lp["rhs"][i] = F(r.randint(-4, 4)); lp["range"][i] = F(r.randint(1, 8))
        else:
            lp["sense"][i] = r.choice("LGE"); lp["rhs"][i] = F(r.randint(-4, 6))
    return lp
