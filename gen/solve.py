"""Scenarios around solving: one LP x many solver configurations (C01-C04), with witnesses of the
true status from the untrusted reference solver (verified by TLC), bases (C12), B^-1 (C13)."""
import random
import lpfam, refsolve
from refsolve import fin, qstr

PPRICE = [1, 2, 3, 4]
DPRICE = [6, 7, 8, 9]


def slack_basis(lp):
    cs = ""
    for j in range(lp["n"]):
        lo, up = lp["lo"][j], lp["up"][j]
        cs += "0" if fin(lo) else ("2" if fin(up) else "3")
    return cs or "-", ("1" * lp["m"]) or "-"


def configs(r, tier_quick):
    """list of (entry, params) configurations"""
    out = []
    for algo in ("primal", "dual"):
        out.append(("exact", dict(algo=algo)))
    out.append(("opt_primal", {}))
    out.append(("opt_dual", {}))
    # scaling off: ONE pass of the simplex on the problem itself from the slack basis (with scaling on, a scaled copy is solved first
    # and the problem is restarted from its final basis, which hides what the start-up code of the simplex does)
    out.append(("opt_dual", dict(sc=0)))
    out.append(("opt_primal", dict(sc=0)))
    extra = []
    for pp in PPRICE:
        extra.append(("opt_primal", dict(pp=pp)))
        extra.append(("exact", dict(algo="primal", pp=pp)))
    for dp in DPRICE:
        extra.append(("opt_dual", dict(dp=dp)))
        extra.append(("exact", dict(algo="dual", dp=dp)))
    for sc in (0, 1):
        extra.append(("exact", dict(algo=r.choice(["primal", "dual"]), sc=sc)))
        extra.append(("opt_primal", dict(sc=sc)))
        extra.append(("opt_dual", dict(sc=sc)))
    for prec in (64, 128, 256, 1024):
        extra.append(("exact", dict(algo=r.choice(["primal", "dual"]), prec=prec)))
    extra.append(("exact", dict(algo="primal", basis="slack")))
    extra.append(("exact", dict(algo="dual", basis="slack")))
    extra.append(("exact", dict(algo="primal", basis="optimal")))
    extra.append(("exact", dict(algo="dual", basis="optimal")))
    extra.append(("exact", dict(algo="dual", basis="other")))
    extra.append(("exact", dict(algo="primal", display=1)))
    r.shuffle(extra)
    out += extra[: (6 if tier_quick else len(extra))]
    return out


def lp_scenario(lp, sid, r, quick=True, how=None, witness=True, cfgs=None, check_binv=True):
    """returns (scenario text, witness event or None)"""
    lines = ["scenario %s" % sid, "handler on"]
    lines += lpfam.build_cmds(lp, "h0", how or r.choice(lpfam.BUILD_MODES))
    lines.append("dump h0")
    w = None
    if witness:
        try:
            sol = refsolve.solve(lp)
            if sol["kind"] != "illformed":
                w = lpfam.witness_event(lp, sol)
        except Exception:
            w = None
    cs, rs = slack_basis(lp)
    have_opt_basis = False
    for (entry, p) in (cfgs or configs(r, quick)):
        lines.append("copy h1 h0 cp")
        if "pp" in p:
            lines.append("set_param h1 0 %d" % p["pp"])
        if "dp" in p:
            lines.append("set_param h1 2 %d" % p["dp"])
            if p["dp"] in (6, 8):
                # Dantzig / multiple partial dual pricing can cycle in dual phase I until the (default 500000) iteration
                # limit; that is a legal non-definitive outcome but takes long in exact arithmetic: bound it
                lines.append("set_param h1 5 3000")
        if "sc" in p:
            lines.append("set_param h1 7 %d" % p["sc"])
        if "display" in p:
            lines.append("set_param h1 4 %d" % p["display"])
        if "prec" in p:
            lines.append("precision %d" % p["prec"])
        if entry == "exact":
            b = "-"
            if p.get("basis") == "slack":
                lines.append("mkbasis b1 %s %s" % (cs, rs))
                b = "b1"
            elif p.get("basis") == "optimal" and have_opt_basis:
                b = "b0"
            elif p.get("basis") == "other" and have_opt_basis:
                # basis that was optimal for a different objective: change objective on the copy, solve, keep basis, restore
                lines.append("copy h2 h0 cp2")
                for j in range(lp["n"]):
                    lines.append("change_objcoef h2 %d %s" % (j, qstr(-lp["obj"][j] + j)))
                lines.append("exact h2 primal b2 0")
                lines.append("free h2")
                b = "b2"
            lines.append("exact h1 %s %s 1" % (p["algo"], b))
            lines.append("sol h1")
            if not have_opt_basis:
                lines.append("get_basis h1 b0")
                have_opt_basis = True   # (slot stays empty if there was no basis: exact then gets an empty QSbasis)
        else:
            lines.append("%s h1" % entry)
            lines.append("sol h1")
            lines.append("get_infeas h1")
            if check_binv:
                lines.append("binv h1")
            # solve again on the same object (warm) with the other algorithm
            lines.append("%s h1" % ("opt_dual" if entry == "opt_primal" else "opt_primal"))
            lines.append("sol h1")
        if "prec" in p:
            lines.append("precision 128")
        lines.append("free h1")
    # force the fallback paths of the exact driver (guarded fault hooks): the first exact test fails although the
    # float solution may be fine -> rational basis status -> second test; results must still be certified
    for algo in ("primal", "dual"):
        for where in ("opt_test", "inf_test"):
            lines += ["copy h1 h0 cpf", "fault %s 1" % where, "exact h1 %s - 1" % algo, "sol h1", "fault %s 0" % where, "free h1"]
    # repeated solves on the original object
    lines.append("exact h0 primal - 1")
    lines.append("sol h0")
    lines.append("exact h0 dual - 1")
    lines.append("sol h0")
    lines.append("free h0")
    return "\n".join(lines) + "\n", w


def family_scenarios(seed, count, quick=True, families=None, sizes=None, witness=True):
    """returns (text, inject) where inject maps scenario id -> witness event (to be inserted after the first dump)"""
    r = random.Random(seed)
    fams = families or lpfam.FAMILIES
    text, inject = [], {}
    for k in range(count):
        fam = fams[k % len(fams)]
        lp = lpfam.family(fam, r)
        sid = "lp_%s_%d_%d" % (fam, seed, k)
        t, w = lp_scenario(lp, sid, r, quick=quick, witness=witness)
        text.append(t)
        if w:
            inject[sid] = w
    return "".join(text), inject


def lp_from_json(d):
    """LP value as written by TLC (Gen_TinyLP / LPFromDump shape) -> python LP dict"""
    from fractions import Fraction as F
    def q(s):
        return s if s in ("inf", "-inf") else F(s)
    m, n = d["m"], d["n"]
    return dict(m=m, n=n, A=[[(e["j"] - 1, F(e["v"])) for e in row] for row in d["A"]], sense=list(d["sense"]),
                rhs=[F(x) for x in d["rhs"]], range=[F(x) for x in d["range"]], obj=[F(x) for x in d["obj"]],
                lo=[q(x) for x in d["lo"]], up=[q(x) for x in d["up"]], max=bool(d["max"]),
                rname=["r%d" % (i + 1) for i in range(m)], cname=["v%d" % (j + 1) for j in range(n)])


BASE_CFGS = [("exact", dict(algo="primal")), ("exact", dict(algo="dual")), ("opt_primal", {}), ("opt_dual", {})]


def tiny_scenarios(lps, seed, tag="tiny"):
    r = random.Random(seed)
    text, inject = [], {}
    for k, d in enumerate(lps):
        lp = lp_from_json(d)
        sid = "%s_%d" % (tag, k)
        t, w = lp_scenario(lp, sid, r, quick=True, cfgs=BASE_CFGS, how="load", check_binv=False)
        text.append(t)
        if w:
            inject[sid] = w
    return "".join(text), inject
