"""Seeded scenario generators for the API driver (harness/qsx).

The generator keeps a light model (row/column counts, names, senses) only to pick mostly-valid
arguments; it is NOT an oracle - the TLA+ specification decides what each call must do.
"""
import random
from fractions import Fraction

INT_MAX = 2147483647


def qstr(q):
    if isinstance(q, str):
        return q
    q = Fraction(q)
    return str(q.numerator) if q.denominator == 1 else "%d/%d" % (q.numerator, q.denominator)


class Gen:
    def __init__(self, seed, big=False, maxval=9):
        self.r = random.Random(seed)
        self.big = big
        self.maxval = maxval
        self.lines = []
        self.m = 0
        self.n = 0
        self.rn = []
        self.cn = []
        self.sense = []
        self.namectr = 0
        self.h = "h0"
        self.bnd = None      # optional list of [lo, up] per column (strings); when set, bound changes keep lo <= up

    # ------------------------------------------------------------ values
    def val(self, nonzero=False):
        r = self.r
        k = r.random()
        if self.big and k < 0.03:
            num = r.getrandbits(r.choice([70, 200, 1000])) + 1
            den = r.getrandbits(r.choice([1, 64, 900])) + 1
            v = Fraction(num if r.random() < .5 else -num, den)
        elif k < 0.15:
            v = Fraction(r.randint(-self.maxval, self.maxval), r.choice([2, 3, 7, 10]))
        else:
            v = Fraction(r.randint(-self.maxval, self.maxval))
        if nonzero and v == 0:
            v = Fraction(1)
        return v

    def bounds(self):
        r = self.r
        k = r.random()
        if k < .35:
            return "0", "inf"
        if k < .5:
            return "-inf", "inf"
        if k < .6:
            v = self.val()
            return qstr(v), qstr(v)
        if k < .7:
            return "-inf", qstr(self.val())
        a, b = sorted([self.val(), self.val()])
        if k < .8:
            return qstr(a), "inf"
        return qstr(a), qstr(b)

    def _bnd_add(self, lo, up):
        if self.bnd is not None:
            self.bnd.append([lo, up])

    @staticmethod
    def _leq(a, b):
        if a == "-inf" or b == "inf":
            return True
        if a == "inf" or b == "-inf":
            return False
        return Fraction(a) <= Fraction(b)

    def newname(self, prefix):
        self.namectr += 1
        return "%s%d" % (prefix, self.namectr)

    def ent(self, count, maxlen=4, dens=None):
        """sparse vector over 0..count-1 without duplicates"""
        if count <= 0:
            return []
        k = self.r.randint(0, min(maxlen, count))
        idx = self.r.sample(range(count), k)
        return [(i, self.val(nonzero=self.r.random() < .9)) for i in idx]

    @staticmethod
    def entstr(e):
        return "%d %s" % (len(e), " ".join("%d %s" % (i, qstr(v)) for i, v in e))

    def emit(self, s):
        self.lines.append(s)

    # ------------------------------------------------------------ lifecycle
    def create(self, h="h0", sense=None):
        self.h = h
        sense = sense or self.r.choice(["min", "max"])
        self.emit("create %s prob %s" % (h, sense))
        self.m = self.n = 0
        self.rn, self.cn, self.sense = [], [], []

    def load(self, nr, nc, h="h0", sense=None, dens=0.5):
        self.h = h
        sense = sense or self.r.choice(["min", "max"])
        cols = []
        for j in range(nc):
            e = [(i, self.val(nonzero=True)) for i in range(nr) if self.r.random() < dens]
            cols.append(e)
        self.rn = [self.newname("r") for _ in range(nr)]
        self.cn = [self.newname("v") for _ in range(nc)]
        self.sense = [self.r.choice("LGE") for _ in range(nr)]
        parts = ["load %s prob %d %d %s" % (h, nc, nr, sense)]
        for e in cols:
            parts.append(self.entstr(e))
        objs = []
        for j in range(nc):
            lo, up = self.bounds()
            objs.append(self.val())
            parts.append("%s %s %s %s" % (qstr(objs[-1]), lo, up, self.cn[j]))
        rows_used = {i for e in cols for i, v in e}
        # the problem keeps its shape through an MPS file: no empty row, every column used
        self.file_ok = nr > 0 and nc > 0 and len(rows_used) == nr and all(cols[j] or objs[j] != 0 for j in range(nc))
        for i in range(nr):
            parts.append("%s %s %s" % (qstr(self.val()), self.sense[i], self.rn[i]))
        self.emit("  ".join(parts))
        self.m, self.n = nr, nc

    # ------------------------------------------------------------ edits (valid)
    def op_add_row(self):
        r = self.r
        kind = r.choice(["new_row", "add_row", "add_row", "add_ranged_row", "add_rows", "add_ranged_rows"])
        h = self.h
        if kind == "new_row":
            nm = self.newname("r") if r.random() < .7 else "-"
            s = r.choice("LGE")
            self.emit("new_row %s %s %s %s" % (h, qstr(self.val()), s, nm))
            self._row_added(nm, s)
        elif kind in ("add_row", "add_ranged_row"):
            nm = self.newname("r") if r.random() < .7 else "-"
            s = r.choice("LGER") if kind == "add_ranged_row" else r.choice("LGE")
            e = self.ent(self.n)
            if kind == "add_row":
                self.emit("add_row %s %s %s %s %s" % (h, self.entstr(e), qstr(self.val()), s, nm))
            else:
                self.emit("add_ranged_row %s %s %s %s %s %s" % (h, self.entstr(e), qstr(self.val()), s, qstr(abs(self.val())), nm))
            self._row_added(nm, s)
        else:
            num = r.randint(1, 3)
            ranged = kind == "add_ranged_rows"
            allnull = r.random() < .3
            parts = ["%s %s %d" % (kind, h, num)]
            added = []
            for _ in range(num):
                nm = "-" if allnull else self.newname("r")
                s = r.choice("LGER") if ranged else r.choice("LGE")
                e = self.ent(self.n)
                if ranged:
                    parts.append("%s %s %s %s %s" % (self.entstr(e), qstr(self.val()), s, qstr(abs(self.val())), nm))
                else:
                    parts.append("%s %s %s %s" % (self.entstr(e), qstr(self.val()), s, nm))
                added.append((nm, s))
            self.emit("  ".join(parts))
            for nm, s in added:
                self._row_added(nm, s)

    def _row_added(self, nm, s):
        self.m += 1
        self.rn.append(None if nm == "-" else nm)
        self.sense.append(s)

    def op_add_col(self):
        r = self.r
        kind = r.choice(["new_col", "add_col", "add_col", "add_cols"])
        h = self.h
        if kind == "new_col":
            nm = self.newname("v") if r.random() < .7 else "-"
            lo, up = self.bounds()
            self._bnd_add(lo, up)
            self.emit("new_col %s %s %s %s %s" % (h, qstr(self.val()), lo, up, nm))
            self.n += 1
            self.cn.append(None if nm == "-" else nm)
        elif kind == "add_col":
            nm = self.newname("v") if r.random() < .7 else "-"
            lo, up = self.bounds()
            self._bnd_add(lo, up)
            e = self.ent(self.m)
            self.emit("add_col %s %s %s %s %s %s" % (h, self.entstr(e), qstr(self.val()), lo, up, nm))
            self.n += 1
            self.cn.append(None if nm == "-" else nm)
        else:
            num = r.randint(1, 3)
            allnull = r.random() < .3
            parts = ["add_cols %s %d" % (h, num)]
            for _ in range(num):
                nm = "-" if allnull else self.newname("v")
                lo, up = self.bounds()
                self._bnd_add(lo, up)
                parts.append("%s %s %s %s %s" % (self.entstr(self.ent(self.m)), qstr(self.val()), lo, up, nm))
                self.cn.append(None if nm == "-" else nm)
            self.emit("  ".join(parts))
            self.n += num

    def op_del_rows(self):
        r = self.r
        if self.m == 0:
            return
        h = self.h
        kind = r.choice(["delete_row", "delete_rows", "delete_setrows", "delete_named_row", "delete_named_rows"])
        k = r.randint(1, min(3, self.m))
        idx = sorted(r.sample(range(self.m), k))
        if kind == "delete_row":
            idx = idx[:1]
            self.emit("delete_row %s %d" % (h, idx[0]))
        elif kind == "delete_rows":
            sh = idx[:]
            r.shuffle(sh)
            self.emit("delete_rows %s %d %s" % (h, len(sh), " ".join(map(str, sh))))
        elif kind == "delete_setrows":
            flags = [1 if i in idx else 0 for i in range(self.m)]
            self.emit("delete_setrows %s %d %s" % (h, self.m, " ".join(map(str, flags))))
        else:
            known = [i for i in idx if self.rn[i] is not None]
            if not known or any(x is None for x in self.rn):
                self.emit("dump %s" % h)   # resolve generated names first; skip this op
                return
            if kind == "delete_named_row":
                idx = known[:1]
                self.emit("delete_named_row %s %s" % (h, self.rn[idx[0]]))
            else:
                idx = known
                self.emit("delete_named_rows %s %d %s" % (h, len(idx), " ".join(self.rn[i] for i in idx)))
        for i in reversed(idx):
            del self.rn[i]
            del self.sense[i]
        self.m -= len(idx)

    def op_del_cols(self):
        r = self.r
        if self.n == 0:
            return
        h = self.h
        kind = r.choice(["delete_col", "delete_cols", "delete_setcols", "delete_named_column", "delete_named_columns"])
        k = r.randint(1, min(3, self.n))
        idx = sorted(r.sample(range(self.n), k))
        if kind == "delete_col":
            idx = idx[:1]
            self.emit("delete_col %s %d" % (h, idx[0]))
        elif kind == "delete_cols":
            sh = idx[:]
            r.shuffle(sh)
            self.emit("delete_cols %s %d %s" % (h, len(sh), " ".join(map(str, sh))))
        elif kind == "delete_setcols":
            flags = [1 if i in idx else 0 for i in range(self.n)]
            self.emit("delete_setcols %s %d %s" % (h, self.n, " ".join(map(str, flags))))
        else:
            known = [i for i in idx if self.cn[i] is not None]
            if not known or any(x is None for x in self.cn):
                self.emit("dump %s" % h)
                return
            if kind == "delete_named_column":
                idx = known[:1]
                self.emit("delete_named_column %s %s" % (h, self.cn[idx[0]]))
            else:
                idx = known
                self.emit("delete_named_columns %s %d %s" % (h, len(idx), " ".join(self.cn[i] for i in idx)))
        for i in reversed(idx):
            del self.cn[i]
            if self.bnd is not None:
                del self.bnd[i]
        self.n -= len(idx)

    def op_change(self):
        r = self.r
        h = self.h
        kinds = []
        if self.m and self.n:
            kinds += ["change_coef"] * 3
        if self.n:
            kinds += ["change_objcoef", "change_bound", "change_bounds"]
        if self.m:
            kinds += ["change_rhscoef", "change_sense", "change_senses"]
            if "R" in self.sense:
                kinds += ["change_range"] * 2
        kinds += ["change_objsense"]
        k = r.choice(kinds)
        if k == "change_coef":
            self.emit("change_coef %s %d %d %s" % (h, r.randrange(self.m), r.randrange(self.n), qstr(self.val())))
        elif k == "change_objcoef":
            self.emit("change_objcoef %s %d %s" % (h, r.randrange(self.n), qstr(self.val())))
        elif k == "change_rhscoef":
            self.emit("change_rhscoef %s %d %s" % (h, r.randrange(self.m), qstr(self.val())))
        elif k == "change_range":
            i = r.choice([i for i in range(self.m) if self.sense[i] == "R"])
            self.emit("change_range %s %d %s" % (h, i, qstr(abs(self.val()))))
        elif k == "change_sense":
            i = r.randrange(self.m)
            s = r.choice("LGER")
            self.emit("change_sense %s %d %s" % (h, i, s))
            self.sense[i] = s
        elif k == "change_senses":
            num = r.randint(1, min(3, self.m))
            idx = r.sample(range(self.m), num)
            ss = [r.choice("LGER") for _ in idx]
            self.emit("change_senses %s %d %s" % (h, num, " ".join("%d %s" % (i, s) for i, s in zip(idx, ss))))
            for i, s in zip(idx, ss):
                self.sense[i] = s
        elif k == "change_bound":
            j = r.randrange(self.n)
            lu = r.choice("LUB")
            v = self.val()
            vs = qstr(v)
            if lu == "L" and r.random() < .2:
                vs = "-inf"
            if lu == "U" and r.random() < .2:
                vs = "inf"
            if self.bnd is not None:
                lo, up = self.bnd[j]
                nlo, nup = (vs if lu in "LB" else lo), (vs if lu in "UB" else up)
                if nlo == "inf" or nup == "-inf" or not self._leq(nlo, nup):
                    return          # would make the column's box empty: well-formed LPs only
                self.bnd[j] = [nlo, nup]
            self.emit("change_bound %s %d %s %s" % (h, j, lu, vs))
        elif k == "change_bounds":
            num = r.randint(1, min(3, self.n))
            idx = r.sample(range(self.n), num)
            trip = [(j, r.choice("LUB"), qstr(self.val())) for j in idx]
            if self.bnd is not None:
                new = {}
                for j, lu, vs in trip:
                    lo, up = self.bnd[j]
                    nlo, nup = (vs if lu in "LB" else lo), (vs if lu in "UB" else up)
                    if not self._leq(nlo, nup):
                        return
                    new[j] = [nlo, nup]
                for j, b in new.items():
                    self.bnd[j] = b
            self.emit("change_bounds %s %d %s" % (h, num, " ".join("%d %s %s" % t for t in trip)))
        else:
            self.emit("change_objsense %s %s" % (h, r.choice(["min", "max"])))

    def op_query(self):
        r = self.r
        h = self.h
        ks = ["dump"]
        if self.m and self.n:
            ks += ["get_coef", "get_rows_list", "get_ranged_rows_list", "get_columns_list"]
        if self.n:
            ks += ["get_bound", "get_obj_list", "get_bounds_list", "get_column_index"]
        if self.m:
            ks += ["get_row_index"]
        k = r.choice(ks)
        if k == "dump":
            self.emit("dump %s" % h)
        elif k == "get_coef":
            self.emit("get_coef %s %d %d" % (h, r.randrange(self.m), r.randrange(self.n)))
        elif k == "get_bound":
            self.emit("get_bound %s %d %s" % (h, r.randrange(self.n), r.choice("LU")))
        elif k in ("get_obj_list", "get_bounds_list", "get_columns_list"):
            num = r.randint(1, min(4, self.n))
            self.emit("%s %s %d %s" % (k, h, num, " ".join(str(r.randrange(self.n)) for _ in range(num))))
        elif k in ("get_rows_list", "get_ranged_rows_list"):
            num = r.randint(1, min(4, self.m))
            self.emit("%s %s %d %s" % (k, h, num, " ".join(str(r.randrange(self.m)) for _ in range(num))))
        elif k == "get_row_index":
            nm = r.choice(self.rn)
            if nm:
                self.emit("get_row_index %s %s" % (h, nm))
        elif k == "get_column_index":
            nm = r.choice(self.cn)
            if nm:
                self.emit("get_column_index %s %s" % (h, nm))

    def op_param(self):
        r = self.r
        which, vals = r.choice([(0, [1, 2, 3, 4]), (2, [6, 7, 8, 9]), (4, [0, 1]), (7, [0, 1])])
        self.emit("set_param %s %d %d" % (self.h, which, r.choice(vals)))

    def random_edit(self):
        r = self.r
        k = r.random()
        if k < .22:
            self.op_add_row()
        elif k < .40:
            self.op_add_col()
        elif k < .50:
            self.op_del_rows()
        elif k < .58:
            self.op_del_cols()
        else:
            self.op_change()

    def text(self):
        return "\n".join(self.lines) + "\n"


def edit_history(seed, steps, start="random", big=False, dump_every=8, grow=False):
    """C06: random edit/query history; returns scenario text"""
    g = Gen(seed, big=big)
    r = g.r
    g.emit("scenario edit_%d" % seed)
    g.emit("handler on")
    if start == "empty" or (start == "random" and r.random() < .4):
        g.create()
    else:
        g.load(r.randint(1, 5), r.randint(1, 5))
        if g.file_ok and r.random() < .3:
            import lpfam
            for ln in lpfam.via_file_cmds("edit_%d" % seed):
                g.emit(ln)
    g.emit("dump h0")
    for s in range(steps):
        if grow and r.random() < .7:
            (g.op_add_row if r.random() < .5 else g.op_add_col)()
        else:
            k = r.random()
            if k < .72:
                g.random_edit()
            elif k < .95:
                g.op_query()
            else:
                g.op_param()
        if (s + 1) % dump_every == 0:
            g.emit("dump h0")
    g.emit("dump h0")
    g.emit("free h0")
    return g.text()


def churn_history(seed, rounds=3):
    """name tables / growth and compaction of the internal stores: add many named rows and columns (names of varied length),
    delete most of them (by index lists, flags, names), add again; dumps in between (C06: names, indices, data must follow)"""
    g = Gen(seed)
    r = g.r
    g.emit("scenario churn_%d" % seed)
    g.emit("handler on")
    g.create()
    for rd in range(rounds):
        nadd = r.choice([12, 30, 55, 70, 130])
        plen = r.choice([1, 1, 3, 8, 20])
        what = r.choice(["col", "row", "both"])
        for k in range(nadd):
            pre = ("v" if what != "row" else "r") * plen
            if what in ("col", "both"):
                g.namectr += 1
                nm = "%s%d" % (pre, g.namectr)
                lo, up = g.bounds()
                g._bnd_add(lo, up)
                if r.random() < .5 or g.m == 0:
                    g.emit("new_col h0 %s %s %s %s" % (qstr(g.val()), lo, up, nm))
                else:
                    g.emit("add_col h0 %s %s %s %s %s" % (g.entstr(g.ent(g.m)), qstr(g.val()), lo, up, nm))
                g.n += 1
                g.cn.append(nm)
            if what in ("row", "both") and (what == "row" or k % 3 == 0):
                g.namectr += 1
                nm = "%s%d" % ("r" * plen, g.namectr)
                sn = r.choice("LGE")
                g.emit("add_row h0 %s %s %s %s" % (g.entstr(g.ent(g.n)), qstr(g.val()), sn, nm))
                g._row_added(nm, sn)
        g.emit("dump h0")
        # delete more than half
        for cnt, names, isrow in ((g.n, g.cn, False), (g.m, g.rn, True)):
            if cnt < 4:
                continue
            k = r.randint(cnt // 2, cnt - 1)
            idx = sorted(r.sample(range(cnt), k))
            kind = r.choice(["list", "flags", "named", "one"])
            w = "row" if isrow else "col"
            if kind == "list":
                sh = idx[:]; r.shuffle(sh)
                g.emit("delete_%ss h0 %d %s" % (w, len(sh), " ".join(map(str, sh))))
            elif kind == "flags":
                g.emit("delete_set%ss h0 %d %s" % (w, cnt, " ".join("1" if i in set(idx) else "0" for i in range(cnt))))
            elif kind == "named" and all(x is not None for x in names):
                g.emit("delete_named_%s h0 %d %s" % ("rows" if isrow else "columns", len(idx), " ".join(names[i] for i in idx)))
            else:
                for i in reversed(idx):
                    g.emit("delete_%s h0 %d" % (w, i))
            for i in reversed(idx):
                del names[i]
                if isrow:
                    del g.sense[i]
                elif g.bnd is not None:
                    del g.bnd[i]
            if isrow:
                g.m -= len(idx)
            else:
                g.n -= len(idx)
        g.emit("dump h0")
    for _ in range(10):
        g.op_query()
    g.emit("dump h0")
    g.emit("free h0")
    return g.text()


# ---------------------------------------------------------------------------------------------
# C07: invalid-argument probes in every lifecycle state
# ---------------------------------------------------------------------------------------------
def _bad_indices(count, other):
    return [-1, count, count + 1, count + other, INT_MAX]


def invalid_probes(seed, state, nr=3, nc=3):
    """one scenario: bring a problem into lifecycle `state`, then fire every invalid-argument probe,
    each bracketed by observations (dump + sol)."""
    g = Gen(seed)
    r = g.r
    h = "h0"
    g.emit("scenario inv_%s_%d" % (state, seed))
    g.emit("handler on")
    if state == "empty":
        g.create()
        nr = nc = 0
    else:
        g.load(nr, nc, dens=0.8)
        # make sure one row is a range row and names are known
        g.emit("add_ranged_row h0 %s %s R %s rr%d" % (g.entstr(g.ent(g.n)), qstr(g.val()), qstr(abs(g.val())), seed))
        g._row_added("rr%d" % seed, "R")
    if state in ("solved_exact", "edited"):
        g.emit("exact h0 primal - 1")
    if state == "solved_simplex":
        g.emit("opt_primal h0")
    if state == "solved_dual":
        g.emit("opt_dual h0")
    if state == "edited":
        g.emit("change_objcoef h0 0 %s" % qstr(g.val()))
    if state == "basis_loaded":
        # a basis given by the user in which the range row (the last row) is non-basic at its UPPER side and one structural
        # column is basic instead; remaining columns at whatever bound they have
        mm, nn = g.m, g.n
        cs = ["1"] + ["0"] * (nn - 1)
        rs = ["1"] * (mm - 1) + ["2"]
        g.emit("mkbasis b0 %s %s" % ("".join(cs), "".join(rs)))
        g.emit("load_basis h0 b0")
    m, n = g.m, g.n

    def obs():
        g.emit("dump h0")
        g.emit("sol h0")

    def probe(line):
        g.emit(line)
        obs()

    obs()
    q = lambda: qstr(g.val())
    for i in _bad_indices(m, n):
        probe("delete_row h0 %d" % i)
        probe("change_rhscoef h0 %d %s" % (i, q()))
        probe("change_range h0 %d 1" % i)
        probe("change_sense h0 %d G" % i)
        probe("get_coef h0 %d 0" % i)
        probe("change_coef h0 %d 0 %s" % (i, q()))
        probe("get_rows_list h0 1 %d" % i)
        probe("get_ranged_rows_list h0 1 %d" % i)
        probe("add_col h0 1 %d 1 %s 0 inf -" % (i, q()))
        pn = "pc_%d_%d" % (seed % 1000, abs(i) % 100000)
        probe("add_col h0 1 %d 1 %s 0 inf %s" % (i, q(), pn))
        probe("get_column_index h0 %s" % pn)          # a rejected add must not leave the name behind
        probe("add_cols h0 2 0 1 0 inf -  1 %d 1 2 0 inf -" % i)
        probe("binv_row h0 %d" % i)
        probe("tableau_row h0 %d" % i)
        if m >= 2:
            for pos in range(3):
                lst = [0, 1]
                lst.insert(pos, i)
                probe("delete_rows h0 3 %s" % " ".join(map(str, lst)))
                probe("change_senses h0 3 %s" % " ".join("%d %s" % (x, r.choice("LGE")) for x in lst))
                probe("get_rows_list h0 3 %s" % " ".join(map(str, lst)))
    for j in _bad_indices(n, m):
        probe("delete_col h0 %d" % j)
        probe("change_objcoef h0 %d %s" % (j, q()))
        probe("change_bound h0 %d L %s" % (j, q()))
        probe("change_bound h0 %d U %s" % (j, q()))
        probe("get_bound h0 %d L" % j)
        probe("get_bound h0 %d U" % j)
        probe("get_coef h0 0 %d" % j)
        probe("change_coef h0 0 %d %s" % (j, q()))
        probe("get_obj_list h0 1 %d" % j)
        probe("get_bounds_list h0 1 %d" % j)
        probe("get_columns_list h0 1 %d" % j)
        probe("add_row h0 1 %d 1 %s L -" % (j, q()))
        pr = "pr_%d_%d" % (seed % 1000, abs(j) % 100000)
        probe("add_row h0 1 %d 1 %s L %s" % (j, q(), pr))
        probe("get_row_index h0 %s" % pr)
        probe("add_ranged_row h0 1 %d 1 %s R 1 -" % (j, q()))
        probe("add_rows h0 2 0 1 L -  1 %d 1 2 G -" % j)
        probe("add_ranged_rows h0 2 0 1 L 0 -  1 %d 1 2 R 1 -" % j)
        if n >= 2:
            for pos in range(3):
                lst = [0, 1]
                lst.insert(pos, j)
                probe("delete_cols h0 3 %s" % " ".join(map(str, lst)))
                probe("change_bounds h0 3 %s" % " ".join("%d %s %s" % (x, r.choice("LUB"), q()) for x in lst))
                probe("get_obj_list h0 3 %s" % " ".join(map(str, lst)))
                probe("get_bounds_list h0 3 %s" % " ".join(map(str, lst)))
                probe("get_columns_list h0 3 %s" % " ".join(map(str, lst)))
    # names
    probe("delete_named_row h0 nosuchrow")
    probe("delete_named_column h0 nosuchcol")
    probe("get_row_index h0 nosuchrow")
    probe("get_column_index h0 nosuchcol")
    if m >= 1:
        probe("delete_named_rows h0 2 %s nosuchrow" % g.rn[0])
        probe("delete_named_rows h0 2 nosuchrow %s" % g.rn[0])
        probe("new_row h0 1 L %s" % g.rn[0])
        probe("add_row h0 0 1 L %s" % g.rn[-1])
        probe("add_rows h0 2 0 1 L fresh_a  0 2 G %s" % g.rn[0])
        probe("add_rows h0 2 0 1 L dupnm  0 2 G dupnm")
        probe("change_sense h0 0 X")
        probe("change_sense h0 0 #0")
        probe("change_senses h0 2 0 L %d Q" % (m - 1))
        for i in [k for k in range(m) if g.sense[k] == "R"]:
            # every range row: an illegal letter for the row itself, a legal change of it in a list that fails on a later entry
            probe("change_sense h0 %d Z" % i)
            probe("change_senses h0 2 %d L %d G" % (i, m))
            probe("change_senses h0 2 %d E -1 L" % i)
        nonr = [i for i in range(m) if g.sense[i] != "R"]
        if nonr:
            probe("change_range h0 %d 1" % nonr[0])
    if n >= 1:
        probe("delete_named_columns h0 2 %s nosuchcol" % g.cn[0])
        probe("new_col h0 1 0 inf %s" % g.cn[0])
        probe("add_col h0 0 1 0 inf %s" % g.cn[-1])
        probe("add_cols h0 2 0 1 0 inf fresh_c  0 2 0 inf %s" % g.cn[0])
        probe("add_cols h0 2 0 1 0 inf dupc  0 2 0 inf dupc")
        probe("change_bound h0 0 X 1")
        probe("change_bound h0 0 #0 1")
        probe("change_bounds h0 2 0 L 1 %d Z 2" % (n - 1))
        probe("get_bound h0 0 X")
    probe("new_row h0 1 X -")
    probe("new_row h0 1 #0 -")
    probe("add_row h0 0 1 Q -")
    probe("add_ranged_row h0 0 1 Z 1 -")
    probe("add_rows h0 2 0 1 L -  0 2 Y -")
    probe("change_objsense h0 0")
    probe("change_objsense h0 2")
    for which, val in [(0, 0), (0, 5), (0, 7), (2, 3), (2, 10), (4, -1), (4, 4), (5, 0), (5, -5), (7, 2), (7, -1), (1, 1), (3, 1), (6, 1), (99, 1), (-1, 1)]:
        probe("set_param h0 %d %d" % (which, val))
    for which in (1, 3, 99, -1):
        probe("get_param h0 %d" % which)
    # bases
    cs_ok = "1" * min(m, n) + "0" * max(0, n - m)
    rs_ok = "0" * min(m, n) + "1" * max(0, m - n)
    if m + n > 0:
        probe("load_basis_array h0 %s %s" % (("1" * n) or "-", ("1" * m) or "-"))          # too many basics
        probe("load_basis_array h0 %s %s" % (("0" * n) or "-", ("0" * m) or "-"))          # no basics
        if n:
            probe("load_basis_array h0 %s %s" % ("7" + cs_ok[1:], rs_ok or "-"))            # illegal status char
        g.emit("mkbasis b1 %s %s" % (cs_ok + "0", rs_ok or "-"))                            # wrong size
        probe("load_basis h0 b1")
        g.emit("mkbasis b2 %s %s" % (("1" * n) or "-", ("1" * m) or "-"))                   # wrong count
        probe("load_basis h0 b2")
        g.emit("mkbasis b3 %s %s" % (("0" * n) or "-", ("0" * m) or "-"))
        probe("load_basis h0 b3")
        if m:
            g.emit("mkbasis b4 %s %s" % (cs_ok or "-", "5" + rs_ok[1:]))
            probe("load_basis h0 b4")
        # both dimensions wrong but the same total (a stale basis of a problem that lost a row and gained a column, or the reverse),
        for bi, (nc, nr) in enumerate([(n + 1, m - 1), (n - 1, m + 1)]):
            if nc < 0 or nr < 0:
                continue
            kb = min(nr, nc)                # internally consistent: as many basic entries as the basis itself has rows
            g.emit("mkbasis b%d %s %s" % (5 + bi, ("1" * kb + "0" * (nc - kb)) or "-", ("1" * (nr - kb) + "0" * kb) or "-"))
            probe("load_basis h0 b%d" % (5 + bi))
        probe("write_basis h0 b1 /dev/null")
        probe("write_basis h0 b2 /dev/null")
        probe("basis_optimalstatus h0 b1") if False else None
    # after all the rejected calls the problem must still accept ordinary edits (with and without names)
    if state != "empty":
        g.emit("new_col h0 1 0 inf -")
        g.emit("new_col h0 1 0 inf pc_%d_%d" % (seed % 1000, m))
        g.emit("add_col h0 0 2 0 inf -")
        g.emit("new_row h0 1 L -")
        g.emit("new_row h0 1 G pr_%d_%d" % (seed % 1000, n))
        obs()
    probe("read_and_load_basis h0 /nonexistent/dir/x.bas")
    probe("read_basis h0 b5 /nonexistent/dir/x.bas")
    g.emit("free h0")
    return g.text()


LIFECYCLE = ["empty", "loaded", "solved_exact", "solved_simplex", "solved_dual", "edited", "basis_loaded"]
