"""Untrusted exact reference LP solver (Python fractions, two-phase tableau simplex, Bland's rule).

It only PRODUCES witnesses - (x, pi) for an optimum, a Farkas vector y, or a feasible point and an
improving ray - which TLC then VERIFIES against the specification's definitions (LPSem.tla).  A wrong
witness can only make a scenario inconclusive.

LP input (python dict): m, n, A (list of rows; row = list of (j, Fraction) 0-based), sense (list of
'L','G','E','R'), rhs, range, obj, lo, up (Fraction or '-inf'/'inf'), max (bool).
"""
from fractions import Fraction as F

INF = "inf"
NINF = "-inf"


def fin(v):
    return v not in (INF, NINF)


def parse_q(s):
    if s in (INF, NINF):
        return s
    return F(s)


def qstr(q):
    if q in (INF, NINF):
        return q
    q = F(q)
    return str(q.numerator) if q.denominator == 1 else "%d/%d" % (q.numerator, q.denominator)


class Std:
    """standard form min c.x s.t. T x = b, x >= 0 built from the LP"""
    pass


def to_standard(lp):
    m, n = lp["m"], lp["n"]
    # variable substitution: x_j = off_j + sum_k coef * x'_k
    cols = []          # list of (kind, j): kind 'p' (x = lo + x'), 'n' (x = up - x'), 'fp','fn' (free split)
    varmap = []        # per original j: list of (newindex, sign), offset
    for j in range(n):
        lo, up = lp["lo"][j], lp["up"][j]
        if fin(lo):
            varmap.append(([(len(cols), 1)], F(lo)))
            cols.append(("p", j))
        elif fin(up):
            varmap.append(([(len(cols), -1)], F(up)))
            cols.append(("n", j))
        else:
            varmap.append(([(len(cols), 1), (len(cols) + 1, -1)], F(0)))
            cols.append(("fp", j))
            cols.append(("fn", j))
    nx = len(cols)
    rows = []   # each: (coef dict over new columns, rhs, kind, origin)
    for i in range(m):
        co = {}
        shift = F(0)
        for (j, v) in lp["A"][i]:
            v = F(v)
            terms, off = varmap[j]
            shift += v * off
            for (k, sg) in terms:
                co[k] = co.get(k, F(0)) + v * sg
        b = F(lp["rhs"][i]) - shift
        s = lp["sense"][i]
        if s == "L":
            rows.append((co, b, "le", ("row", i, "up")))
        elif s == "G":
            rows.append((co, b, "ge", ("row", i, "lo")))
        elif s == "E":
            rows.append((co, b, "eq", ("row", i, "eq")))
        else:
            rows.append((dict(co), b, "ge", ("row", i, "lo")))
            rows.append((dict(co), b + F(lp["range"][i]), "le", ("row", i, "up")))
    for j in range(n):
        lo, up = lp["lo"][j], lp["up"][j]
        if fin(lo) and fin(up):
            k = varmap[j][0][0][0]
            rows.append(({k: F(1)}, F(up) - F(lo), "le", ("bnd", j, "up")))
    # slack columns
    ncol = nx
    T = []
    bvec = []
    for (co, b, kind, org) in rows:
        r = dict(co)
        if kind == "le":
            r[ncol] = F(1)
            ncol += 1
        elif kind == "ge":
            r[ncol] = F(-1)
            ncol += 1
        T.append(r)
        bvec.append(b)
    c = [F(0)] * ncol
    objoff = F(0)
    sgn = -1 if lp["max"] else 1
    for j in range(n):
        cj = F(lp["obj"][j]) * sgn
        terms, off = varmap[j]
        objoff += cj * off
        for (k, sg) in terms:
            c[k] += cj * sg
    st = Std()
    st.T, st.b, st.c, st.ncol, st.nx = T, bvec, c, ncol, nx
    st.rows, st.varmap, st.objoff, st.sgn = rows, varmap, objoff, sgn
    return st


def simplex(T, b, c, ncol, maxiter=200000):
    """two-phase dense tableau simplex with Bland's rule on min c.x, T x = b, x >= 0.
    returns ('opt', x, y) / ('inf', y) / ('unb', x, d); y = row multipliers with T^T y <= c (opt)"""
    mr = len(T)
    # dense rows with artificials; keep B^-1 implicitly by carrying an identity block
    sign = [1 if b[i] >= 0 else -1 for i in range(mr)]
    width = ncol + mr       # structural+slack columns, then artificial columns (which double as B^-1 record)
    tab = []
    for i in range(mr):
        row = [F(0)] * (width + 1)
        for k, v in T[i].items():
            row[k] = v * sign[i]
        row[ncol + i] = F(1)
        row[width] = b[i] * sign[i]
        tab.append(row)
    basis = [ncol + i for i in range(mr)]

    def run(cost, allowed):
        # reduced costs computed from scratch each iteration row (dense) - fine for small LPs
        z = [F(0)] * (width + 1)
        for k in range(width):
            z[k] = cost[k]
        z[width] = F(0)
        for i in range(mr):
            cb = cost[basis[i]]
            if cb != 0:
                r = tab[i]
                for k in range(width + 1):
                    if r[k] != 0:
                        z[k] -= cb * r[k]
        it = 0
        while True:
            it += 1
            if it > maxiter:
                raise RuntimeError("iteration limit")
            ent = -1
            for k in range(allowed):
                if z[k] < 0:
                    ent = k
                    break
            if ent < 0:
                return ("opt", z)
            lv = -1
            best = None
            for i in range(mr):
                a = tab[i][ent]
                if a > 0:
                    ratio = tab[i][width] / a
                    if best is None or ratio < best or (ratio == best and basis[i] < basis[lv]):
                        best, lv = ratio, i
            if lv < 0:
                return ("unb", ent)
            piv = tab[lv][ent]
            prow = tab[lv]
            if piv != 1:
                inv = 1 / piv
                for k in range(width + 1):
                    if prow[k] != 0:
                        prow[k] *= inv
            for i in range(mr):
                if i != lv:
                    f = tab[i][ent]
                    if f != 0:
                        r = tab[i]
                        for k in range(width + 1):
                            if prow[k] != 0:
                                r[k] -= f * prow[k]
            f = z[ent]
            if f != 0:
                for k in range(width + 1):
                    if prow[k] != 0:
                        z[k] -= f * prow[k]
            basis[lv] = ent

    # phase 1
    cost1 = [F(0)] * ncol + [F(1)] * mr
    res, z = run(cost1, width)
    w = -z[width]
    if w > 0:
        # duals of phase 1: y_i = cost1_art_i - z[art_i] = 1 - z[ncol+i]; undo row sign
        y = [(F(1) - z[ncol + i]) * sign[i] for i in range(mr)]
        return ("inf", y)
    # drive artificials out of the basis where possible
    for i in range(mr):
        if basis[i] >= ncol:
            ent = -1
            for k in range(ncol):
                if tab[i][k] != 0:
                    ent = k
                    break
            if ent >= 0:
                piv = tab[i][ent]
                prow = tab[i]
                inv = 1 / piv
                for k in range(width + 1):
                    prow[k] *= inv
                for r_ in range(mr):
                    if r_ != i:
                        f = tab[r_][ent]
                        if f != 0:
                            r = tab[r_]
                            for k in range(width + 1):
                                r[k] -= f * prow[k]
                basis[i] = ent
    cost2 = list(c) + [F(0)] * mr
    res, z = run(cost2, ncol)
    x = [F(0)] * ncol
    for i in range(mr):
        if basis[i] < ncol:
            x[basis[i]] = tab[i][width]
    if res == "unb":
        ent = z
        d = [F(0)] * ncol
        d[ent] = F(1)
        for i in range(mr):
            if basis[i] < ncol:
                d[basis[i]] = -tab[i][ent]
        return ("unb", x, d)
    # duals: y_i = -z[art_i] (cost of artificial is 0 in phase 2), undo sign
    y = [(-z[ncol + i]) * sign[i] for i in range(mr)]
    return ("opt", x, y)


def solve(lp):
    """returns dict(kind='opt', x, pi, val) | dict(kind='inf', y) | dict(kind='unb', x, d) ; original space"""
    st = to_standard(lp)
    n, m = lp["n"], lp["m"]
    for j in range(n):
        if fin(lp["lo"][j]) and fin(lp["up"][j]) and F(lp["lo"][j]) > F(lp["up"][j]):
            return dict(kind="illformed")
    if not st.T:
        # no rows at all: decide by bounds
        x = []
        d = [F(0)] * n
        unb = False
        for j in range(n):
            cj = F(lp["obj"][j]) * st.sgn
            lo, up = lp["lo"][j], lp["up"][j]
            if cj > 0:
                if not fin(lo):
                    unb = True
                    d[j] = F(-1)
                x.append(F(lo) if fin(lo) else (F(up) if fin(up) else F(0)))
            elif cj < 0:
                if not fin(up):
                    unb = True
                    d[j] = F(1)
                x.append(F(up) if fin(up) else (F(lo) if fin(lo) else F(0)))
            else:
                x.append(F(lo) if fin(lo) else (F(up) if fin(up) else F(0)))
        if unb:
            # a single improving coordinate direction is enough
            dd = [F(0)] * n
            for j in range(n):
                if d[j] != 0:
                    dd[j] = d[j]
                    break
            return dict(kind="unb", x=x, d=dd)
        return dict(kind="opt", x=x, pi=[], val=sum(F(lp["obj"][j]) * x[j] for j in range(n)))
    r = simplex(st.T, st.b, st.c, st.ncol)

    def back(xs, is_dir=False):
        out = []
        for j in range(n):
            terms, off = st.varmap[j]
            v = F(0) if is_dir else off
            for (k, sg) in terms:
                v += sg * xs[k]
            out.append(v)
        return out

    def rowmult(y):
        pi = [F(0)] * m
        for (idx, (co, b, kind, org)) in enumerate(st.rows):
            if org[0] == "row":
                pi[org[1]] += y[idx]
        return pi

    if r[0] == "opt":
        x = back(r[1])
        pi = [v * st.sgn for v in rowmult(r[2])]
        val = sum(F(lp["obj"][j]) * x[j] for j in range(n))
        return dict(kind="opt", x=x, pi=pi, val=val)
    if r[0] == "inf":
        return dict(kind="inf", y=rowmult(r[1]))
    x = back(r[1])
    d = back(r[2], is_dir=True)
    return dict(kind="unb", x=x, d=d)


# ------------------------------------------------------------------------------------------------
# python port of the certificate definitions (only used to debug this file; TLC is the judge)
def _act(lp, x, i):
    return sum(F(v) * x[j] for j, v in lp["A"][i])


def check(lp, w):
    n, m = lp["n"], lp["m"]
    dirn = -1 if lp["max"] else 1

    def rowlo(i):
        return NINF if lp["sense"][i] == "L" else F(lp["rhs"][i])

    def rowup(i):
        s = lp["sense"][i]
        return INF if s == "G" else (F(lp["rhs"][i]) + F(lp["range"][i]) if s == "R" else F(lp["rhs"][i]))

    def leq(a, b):
        return a == NINF or b == INF or (fin(a) and fin(b) and a <= b)

    def feas(x):
        return all(leq(lp["lo"][j] if not fin(lp["lo"][j]) else F(lp["lo"][j]), x[j]) and leq(x[j], lp["up"][j] if not fin(lp["up"][j]) else F(lp["up"][j])) for j in range(n)) and \
            all(leq(rowlo(i), _act(lp, x, i)) and leq(_act(lp, x, i), rowup(i)) for i in range(m))

    if w["kind"] == "opt":
        x, pi = w["x"], w["pi"]
        if not feas(x):
            return "x infeasible"
        t = [F(0)] * n
        for i in range(m):
            for j, v in lp["A"][i]:
                t[j] += pi[i] * F(v)
        for j in range(n):
            rc = F(lp["obj"][j]) - t[j]
            g = dirn * (1 if rc > 0 else -1 if rc < 0 else 0)
            if g > 0 and not (fin(lp["lo"][j]) and x[j] == F(lp["lo"][j])):
                return "col dual sign %d" % j
            if g < 0 and not (fin(lp["up"][j]) and x[j] == F(lp["up"][j])):
                return "col dual sign %d" % j
        for i in range(m):
            g = dirn * (1 if pi[i] > 0 else -1 if pi[i] < 0 else 0)
            a = _act(lp, x, i)
            if g > 0 and not (fin(rowlo(i)) and a == rowlo(i)):
                return "row dual sign %d" % i
            if g < 0 and not (fin(rowup(i)) and a == rowup(i)):
                return "row dual sign %d" % i
        return None
    if w["kind"] == "inf":
        y = w["y"]
        t = [F(0)] * n
        for i in range(m):
            for j, v in lp["A"][i]:
                t[j] += y[i] * F(v)
        L = F(0)
        for i in range(m):
            if y[i] > 0:
                if not fin(rowlo(i)):
                    return "row side"
                L += y[i] * rowlo(i)
            elif y[i] < 0:
                if not fin(rowup(i)):
                    return "row side"
                L += y[i] * rowup(i)
        U = F(0)
        for j in range(n):
            if t[j] > 0:
                if not fin(lp["up"][j]):
                    return "col side"
                U += t[j] * F(lp["up"][j])
            elif t[j] < 0:
                if not fin(lp["lo"][j]):
                    return "col side"
                U += t[j] * F(lp["lo"][j])
        return None if U < L else "U>=L"
    if w["kind"] == "unb":
        x, d = w["x"], w["d"]
        if not feas(x):
            return "x0 infeasible"
        for j in range(n):
            if d[j] > 0 and lp["up"][j] != INF:
                return "ray col"
            if d[j] < 0 and lp["lo"][j] != NINF:
                return "ray col"
        for i in range(m):
            a = _act(lp, d, i)
            if a > 0 and rowup(i) != INF:
                return "ray row"
            if a < 0 and rowlo(i) != NINF:
                return "ray row"
        ov = sum(F(lp["obj"][j]) * d[j] for j in range(n))
        if not dirn * ov < 0:
            return "ray not improving"
        return None
    return "?"
