NAME    prob
 XU v3 r3
 XL v4 r4
 XL v6 r5
 UL v1
 UL v2
 UL v5
 UL v7
ENDATA
