NAME    prob
 XL v5 r2
 XL v6 r5
 UL v2
 UL v3
ENDATA
