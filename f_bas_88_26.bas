NAME    prob
 XL v2 r1
 XU v4 r3
 XL v5 r4
 UL v1
 UL v6
ENDATA
