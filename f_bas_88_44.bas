NAME    prob
 XL v1 r2
 XL v4 r3
 XL v5 r5
 UL v2
 UL v6
 UL v7
ENDATA
