NAME    prob
 XL v7 r3
 UL v5
 UL v6
ENDATA
