NAME    prob
 XL v1 r1
 XL v2 r2
 XU v4 r3
 XL v7 r4
ENDATA
