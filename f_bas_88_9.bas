NAME    prob
 XL v2 r2
 XU v5 r3
 XL v6 r4
 XL v7 r5
 UL v4
ENDATA
