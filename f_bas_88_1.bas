NAME    prob
 XL v1 r2
 XU v2 r3
 UL v3
 UL v7
ENDATA
