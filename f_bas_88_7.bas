NAME    prob
 XL v4 r3
 XL v5 r5
 UL v2
ENDATA
