NAME    prob
 XL v2 r2
 XL v4 r4
 UL v1
 UL v3
 UL v7
ENDATA
