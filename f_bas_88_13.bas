NAME    prob
 XL v4 r4
 XL v7 r5
 UL v5
 UL v6
ENDATA
