NAME    prob
 XL v3 r1
 XL v5 r2
 XU v6 r3
 UL v2
 UL v4
ENDATA
