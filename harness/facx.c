/* facx: component-level driver for the sparse LU code (factor_mpq.h), used the way basis.c uses it.
 *
 *   facx <scenario> <trace> <stdout-file> <stderr-file>
 *
 * One NDJSON record per library call (same envelope as qsx: {"k":"S"} before, {"k":"E",...} after,
 * {"k":"X"} on a signal / watchdog).  The driver keeps the caller's side of the protocol only: the column
 * pool, which pool column sits at which basis position (baz), and whether the factor work is usable.
 * It never checks a result - that is the specification's job (spec/Factor.tla, spec/TraceFactor.tla).
 *
 * commands
 *   scenario <id>
 *   iparam <QS_FACTOR_* code> <value>        applied to every factor work created afterwards
 *   matrix <n>   followed by n lines   c <cnt> <row> <val> ...          (rows 0-based, exact rationals)
 *   factor                                  free + create + ILLfactor (as ILLbasis_factor does)
 *   repair                                  apply the last singular report: position singc[k] gets the unit column of row singr[k]
 *   fix                                     factor, and while singular: repair + factor (at most n + 2 rounds)
 *   update <pos> <cnt> <row> <val> ...      ILLfactor_ftran_update + ILLfactor_update; the caller's matrix changes in every case
 *   ftran <cnt> <row> <val> ...             B x = a
 *   btran <cnt> <pos> <val> ...             y^T B = c^T
 *   units                                   ftran and btran of every unit vector
 */
#ifdef HAVE_CONFIG_H
#include "config.h"
#endif
#include <stdio.h>
#include <stdlib.h>
#include <string.h>
#include <signal.h>
#include <unistd.h>
#include <fcntl.h>
#include <sys/stat.h>
#include <gmp.h>
#include "QSopt_ex.h"
#include "logging-private.h"
#include "lpdefs_mpq.h"
#include "factor_mpq.h"
#include "dstruct_mpq.h"

#ifdef VERIF_ASAN
int __lsan_do_recoverable_leak_check(void);
const char *__asan_default_options(void) { return "abort_on_error=1:halt_on_error=1:detect_leaks=0:allocator_may_return_null=1:handle_segv=0:handle_sigfpe=0:handle_abort=0"; }
const char *__ubsan_default_options(void) { return "abort_on_error=1:halt_on_error=1:print_stacktrace=1"; }
#endif
static FILE *tr; static int trfd = -1; static int evn = 0; static int call_timeout = 20;
static long msgs = 0;

/* ---------------------------------------------------------------- tokens */
static char **tok; static int ntok, tp;
static char EOLTOK[] = "\n";
static void load_tokens(const char *fn)
{
	FILE *f = fopen(fn, "rb"); long sz; char *buf; int cap = 1024; char *line, *s, *save1 = 0, *save2 = 0;
	if (!f) { perror(fn); exit(2); }
	fseek(f, 0, SEEK_END); sz = ftell(f); fseek(f, 0, SEEK_SET);
	buf = malloc(sz + 1); if (fread(buf, 1, sz, f) != (size_t)sz) exit(2); buf[sz] = 0; fclose(f);
	tok = malloc(cap * sizeof(char*)); ntok = 0;
	for (line = strtok_r(buf, "\n", &save1); line; line = strtok_r(NULL, "\n", &save1)) {
		for (s = strtok_r(line, " \t\r", &save2); s; s = strtok_r(NULL, " \t\r", &save2)) {
			if (ntok + 2 >= cap) { cap *= 2; tok = realloc(tok, cap * sizeof(char*)); }
			tok[ntok++] = s;
		}
		if (ntok + 2 >= cap) { cap *= 2; tok = realloc(tok, cap * sizeof(char*)); }
		tok[ntok++] = EOLTOK;
	}
	tp = 0;
}
static void die(const char *m) { fprintf(tr, "{\"k\":\"X\",\"kind\":\"driver\",\"msg\":\"%s\",\"tp\":%d}\n", m, tp); fflush(tr); _exit(4); }
static char *nx(void) { while (tp < ntok && tok[tp] == EOLTOK) tp++; if (tp >= ntok) die("scenario truncated"); return tok[tp++]; }
static int nxi(void) { return (int)strtol(nx(), NULL, 10); }
static void nxq(mpq_t q) { if (mpq_set_str(q, nx(), 10)) die("bad rational"); mpq_canonicalize(q); }

/* ---------------------------------------------------------------- json */
static char *jb; static size_t jl, jc; static int jfirst;
static void jput(const char *s, size_t n) { if (jl + n + 1 > jc) { jc = (jl + n + 1) * 2; jb = realloc(jb, jc); } memcpy(jb + jl, s, n); jl += n; jb[jl] = 0; }
static void jraw(const char *s) { jput(s, strlen(s)); }
static void jintv(long v) { char t[32]; snprintf(t, sizeof t, "%ld", v); jraw(t); }
static void jqv(mpq_t q)
{
	size_t need = mpz_sizeinbase(mpq_numref(q), 10) + mpz_sizeinbase(mpq_denref(q), 10) + 5; char *t = malloc(need);
	mpq_get_str(t, 10, q); jraw("\""); jraw(t); jraw("\""); free(t);
}
static void jkey(const char *k) { if (!jfirst) jraw(","); jfirst = 0; jraw("\""); jraw(k); jraw("\":"); }
static void J_int(const char *k, long v) { jkey(k); jintv(v); }
static void J_str(const char *k, const char *s) { jkey(k); jraw("\""); jraw(s); jraw("\""); }
static void J_iarr(const char *k, int *a, int n) { int i; jkey(k); jraw("["); for (i = 0; i < n; i++) { if (i) jraw(","); jintv(a[i]); } jraw("]"); }
static void jsparse(int cnt, int *ind, mpq_t *val) { int i; jraw("["); for (i = 0; i < cnt; i++) { if (i) jraw(","); jraw("{\"j\":"); jintv(ind[i]); jraw(",\"v\":"); jqv(val[i]); jraw("}"); } jraw("]"); }
static void J_sv(const char *k, mpq_svector *s) { jkey(k); jsparse(s->nzcnt, s->indx, s->coef); }

static const char *curcall = "";
static void ev_begin(const char *call)
{
	evn++; curcall = call;
	fprintf(tr, "{\"k\":\"S\",\"n\":%d,\"call\":\"%s\"}\n", evn, call); fflush(tr);
	jl = 0; jfirst = 1; if (jb) jb[0] = 0;
	jraw("{"); J_str("k", "E"); J_int("n", evn); J_str("call", call);
}
static void arm(void) { msgs = 0; alarm(call_timeout); }
static void disarm(void) { alarm(0); }
static void ev_end(void) { J_int("msgs", msgs); jraw("}\n"); fwrite(jb, 1, jl, tr); fflush(tr); }
static void onsig(int sig)
{
	char t[160]; int n = snprintf(t, sizeof t, "{\"k\":\"X\",\"kind\":\"signal\",\"sig\":%d,\"n\":%d,\"call\":\"%s\"}\n", sig, evn, curcall);
	if (write(trfd, t, n) < 0) {}
	_exit(sig == SIGALRM ? 5 : 3);
}
static void loghandler(const char *m, void *d) { (void)d; (void)m; msgs++; }

/* ---------------------------------------------------------------- the caller's side: column pool and basis header */
static int dim = 0;
static int npool = 0, poolcap = 0;          /* pool columns */
static int *pbeg, *plen;                   /* per pool column */
static int nzs = 0, nzcap = 0; static int *pind; static mpq_t *pval;
static int *baz;                           /* position -> pool column */
static mpq_factor_work *F = 0;
static int usable = 0;                     /* the factor work represents the current matrix */
static int have_matrix = 0;
static int nsing = 0, *singr = 0, *singc = 0;
static int ipar[32], ipar_set[32];

static int pool_add(int cnt, int *ind, mpq_t *val)
{
	int k;
	if (npool + 1 > poolcap) { poolcap = poolcap ? 2 * poolcap : 64; pbeg = realloc(pbeg, poolcap * sizeof(int)); plen = realloc(plen, poolcap * sizeof(int)); }
	if (nzs + cnt + 1 > nzcap) {
		int old = nzcap; nzcap = 2 * (nzs + cnt + 1); pind = realloc(pind, nzcap * sizeof(int)); pval = realloc(pval, nzcap * sizeof(mpq_t));
		for (k = old; k < nzcap; k++) mpq_init(pval[k]);
	}
	pbeg[npool] = nzs; plen[npool] = cnt;
	for (k = 0; k < cnt; k++) { pind[nzs] = ind[k]; mpq_set(pval[nzs], val[k]); nzs++; }
	return npool++;
}
static void pool_reset(void) { npool = 0; nzs = 0; }
static void J_matrix(void)
{
	int p; jkey("M"); jraw("[");
	for (p = 0; p < dim; p++) { if (p) jraw(","); jsparse(plen[baz[p]], pind + pbeg[baz[p]], pval + pbeg[baz[p]]); }
	jraw("]");
}
static void rd_sparse(int *cnt, int **ind, mpq_t **val)
{
	int k; *cnt = nxi(); *ind = malloc((*cnt + 1) * sizeof(int)); *val = malloc((*cnt + 1) * sizeof(mpq_t));
	for (k = 0; k < *cnt; k++) { (*ind)[k] = nxi(); mpq_init((*val)[k]); nxq((*val)[k]); if ((*ind)[k] < 0 || (*ind)[k] >= dim) die("index outside the matrix"); }
}
static void free_sparse(int cnt, int *ind, mpq_t *val) { int k; for (k = 0; k < cnt; k++) mpq_clear(val[k]); free(ind); free(val); }
static void to_sv(mpq_svector *s, int cnt, int *ind, mpq_t *val)
{
	int k; mpq_ILLsvector_init(s); if (mpq_ILLsvector_alloc(s, dim > 0 ? dim : 1)) die("svector alloc");
	for (k = 0; k < cnt; k++) { s->indx[k] = ind[k]; mpq_set(s->coef[k], val[k]); }
	s->nzcnt = cnt;
}

static void do_factor(void)
{
	int rval, k;
	ev_begin("factor"); J_int("dim", dim); J_matrix();
	arm();
	if (F) mpq_ILLfactor_free_factor_work(F);
	else {
		F = malloc(sizeof(mpq_factor_work));
		mpq_init(F->fzero_tol); mpq_init(F->szero_tol); mpq_init(F->partial_tol); mpq_init(F->maxelem_orig);
		mpq_init(F->maxelem_factor); mpq_init(F->maxelem_cur); mpq_init(F->partial_cur);
		mpq_ILLfactor_init_factor_work(F);
	}
	for (k = 0; k < 32; k++) if (ipar_set[k]) mpq_ILLfactor_set_factor_iparam(F, k, ipar[k]);
	rval = mpq_ILLfactor_create_factor_work(F, dim);
	free(singr); free(singc); singr = singc = 0; nsing = 0;
	if (!rval) rval = mpq_ILLfactor(F, baz, pbeg, plen, pind, pval, &nsing, &singr, &singc);
	disarm();
	usable = (rval == 0 && nsing == 0);
	J_int("rval", rval); J_int("nsing", nsing);
	J_iarr("srows", singr, singr ? nsing : 0); J_iarr("scols", singc, singc ? nsing : 0);
	J_int("etamax", F->etamax);
	ev_end();
}
static void do_repair(void)
{
	int k; mpq_t one; int r;
	ev_begin("repair"); J_int("nsing", nsing); J_iarr("srows", singr, singr ? nsing : 0); J_iarr("scols", singc, singc ? nsing : 0);
	mpq_init(one); mpq_set_ui(one, 1, 1);
	for (k = 0; k < nsing; k++) {
		if (singr[k] < 0 || singr[k] >= dim || singc[k] < 0 || singc[k] >= dim) { J_int("bad", 1); continue; }
		r = singr[k]; baz[singc[k]] = pool_add(1, &r, &one);
	}
	mpq_clear(one); usable = 0; nsing = 0;
	ev_end();
}
static void do_fix(void)
{
	int round;
	for (round = 0; round < dim + 2; round++) {
		do_factor();
		if (usable || nsing == 0) break;
		do_repair();
	}
}
static void do_solve(int back, int cnt, int *ind, mpq_t *val)
{
	mpq_svector a, x;
	ev_begin(back ? "btran" : "ftran");
	to_sv(&a, cnt, ind, val); mpq_ILLsvector_init(&x); if (mpq_ILLsvector_alloc(&x, dim)) die("svector alloc");
	J_sv("a", &a); J_int("etas", F->etacnt);
	arm();
	if (back) mpq_ILLfactor_btran(F, &a, &x); else mpq_ILLfactor_ftran(F, &a, &x);
	disarm();
	J_sv("x", &x);
	mpq_ILLsvector_free(&a); mpq_ILLsvector_free(&x);
	ev_end();
}

int main(int argc, char **argv)
{
	char *c; struct sigaction sa;
	if (argc < 5) { fprintf(stderr, "usage: facx scenario trace out err\n"); return 2; }
	tr = fopen(argv[2], "w"); if (!tr) return 2; trfd = fileno(tr);
	if (!freopen(argv[3], "w", stdout) || !freopen(argv[4], "w", stderr)) return 2;
	if (getenv("QSX_CALL_TIMEOUT")) call_timeout = atoi(getenv("QSX_CALL_TIMEOUT"));
	load_tokens(argv[1]);
	memset(&sa, 0, sizeof sa); sa.sa_handler = onsig;
	if (!getenv("QSX_NOSIG")) { sigaction(SIGSEGV, &sa, 0); sigaction(SIGBUS, &sa, 0); sigaction(SIGFPE, &sa, 0); sigaction(SIGABRT, &sa, 0); sigaction(SIGILL, &sa, 0); }
	sigaction(SIGALRM, &sa, 0);
	QSexactStart();
	QSlog_set_handler(loghandler, NULL);
	while (tp < ntok) {
		while (tp < ntok && tok[tp] == EOLTOK) tp++;
		if (tp >= ntok) break;
		c = nx();
		if (!strcmp(c, "scenario")) {
			ev_begin("scenario"); J_str("id", nx()); ev_end();
			have_matrix = 0; usable = 0; memset(ipar_set, 0, sizeof ipar_set);
		}
		else if (!strcmp(c, "iparam")) { int k = nxi(), v = nxi(); if (k < 0 || k >= 32) die("iparam"); ipar[k] = v; ipar_set[k] = 1; }
		else if (!strcmp(c, "matrix")) {
			int p, cnt, *ind; mpq_t *val;
			dim = nxi(); if (dim < 1 || dim > 4000) die("dimension");
			pool_reset(); free(baz); baz = malloc(dim * sizeof(int));
			for (p = 0; p < dim; p++) { if (strcmp(nx(), "c")) die("expected c"); rd_sparse(&cnt, &ind, &val); baz[p] = pool_add(cnt, ind, val); free_sparse(cnt, ind, val); }
			have_matrix = 1; usable = 0;
			ev_begin("matrix"); J_int("dim", dim); J_matrix(); ev_end();
		}
		else if (!have_matrix) die("no matrix");
		else if (!strcmp(c, "factor")) do_factor();
		else if (!strcmp(c, "repair")) do_repair();
		else if (!strcmp(c, "fix")) do_fix();
		else if (!strcmp(c, "update")) {
			int pos = nxi(), cnt, *ind, rval, refact = 0; mpq_t *val; mpq_svector a, upd, x;
			rd_sparse(&cnt, &ind, &val);
			if (pos < 0 || pos >= dim) die("position");
			if (!usable) { ev_begin("skipped"); J_str("what", "update"); ev_end(); free_sparse(cnt, ind, val); continue; }
			ev_begin("update"); J_int("pos", pos);
			to_sv(&a, cnt, ind, val); mpq_ILLsvector_init(&upd); mpq_ILLsvector_init(&x);
			if (mpq_ILLsvector_alloc(&upd, dim) || mpq_ILLsvector_alloc(&x, dim)) die("svector alloc");
			J_sv("a", &a); J_int("etas", F->etacnt);
			arm();
			mpq_ILLfactor_ftran_update(F, &a, &upd, &x);
			J_sv("x", &x);
			rval = mpq_ILLfactor_update(F, &upd, pos, &refact);
			disarm();
			baz[pos] = pool_add(cnt, ind, val);          /* the simplex has already swapped the column in */
			usable = (rval == 0 && !refact);
			J_int("rval", rval); J_int("refact", refact); J_int("etas2", F->etacnt);
			mpq_ILLsvector_free(&a); mpq_ILLsvector_free(&upd); mpq_ILLsvector_free(&x);
			free_sparse(cnt, ind, val);
			ev_end();
			if (!usable) do_fix();
		}
		else if (!strcmp(c, "ftran") || !strcmp(c, "btran")) {
			int cnt, *ind; mpq_t *val; rd_sparse(&cnt, &ind, &val);
			if (!usable) { ev_begin("skipped"); J_str("what", c); ev_end(); }
			else do_solve(c[0] == 'b', cnt, ind, val);
			free_sparse(cnt, ind, val);
		}
		else if (!strcmp(c, "units")) {
			int k; mpq_t one; mpq_init(one); mpq_set_ui(one, 1, 1);
			if (!usable) { ev_begin("skipped"); J_str("what", c); ev_end(); }
			else for (k = 0; k < dim; k++) { do_solve(0, 1, &k, &one); do_solve(1, 1, &k, &one); }
			mpq_clear(one);
		}
		else die("unknown command");
	}
	/* release everything through the documented functions, shut the library down, then ask LeakSanitizer (ASan build) */
	{ int leak = -1;
	ev_begin("shutdown");
	if (F) {
		mpq_ILLfactor_free_factor_work(F);
		mpq_clear(F->fzero_tol); mpq_clear(F->szero_tol); mpq_clear(F->partial_tol); mpq_clear(F->maxelem_orig);
		mpq_clear(F->maxelem_factor); mpq_clear(F->maxelem_cur); mpq_clear(F->partial_cur);
		free(F); F = 0;
	}
	free(singr); free(singc); singr = singc = 0;
	QSexactClear();
#ifdef VERIF_ASAN
	leak = __lsan_do_recoverable_leak_check();
#endif
	J_int("leak", leak); ev_end(); }
	fclose(tr);
	_exit(0);
}
