/* qsx - conformance driver for qsopt-ex (verification harness; contains no expected values).
 *
 * usage: qsx <scenario-file> <trace-file> <stdout-capture> <stderr-capture>
 *
 * Reads a scenario (whitespace separated tokens, one call per command), executes every call against
 * the library and logs one NDJSON record per call: arguments, return value, results, the solver
 * residue read from the public struct, and the number of bytes that reached fd 1 / fd 2 and the
 * number of log-handler invocations during the call.  A {"k":"S"} line is written before each call
 * so that a call that never returns (crash, hang) is attributable.
 */
#ifdef HAVE_CONFIG_H
# include "config.h"
#endif
#include <stdio.h>
#include <stdlib.h>
#include <string.h>
#include <signal.h>
#include <unistd.h>
#include <fcntl.h>
#include <sys/stat.h>
#include <limits.h>
#include <gmp.h>

#include "QSopt_ex.h"
#include "except.h"
#include "logging-private.h"
#include "qs_config.h"

#ifdef VERIF_ASAN
int __lsan_do_recoverable_leak_check(void);
const char *__asan_default_options(void) { return "abort_on_error=1:halt_on_error=1:detect_leaks=0:allocator_may_return_null=1:handle_segv=0:handle_sigfpe=0:handle_abort=0"; }
const char *__ubsan_default_options(void) { return "abort_on_error=1:halt_on_error=1:print_stacktrace=1"; }
#endif

#define MAXH 16
static mpq_QSprob H[MAXH];
static QSbasis *B[MAXH];
static FILE *tr;
static int trfd = -1;
static int evn = 0;
static int call_timeout = 20;
static long msgs = 0, msgbytes = 0;
static int handler_on = 0;
static off_t out0, err0;

/* ---------------------------------------------------------------- tokens */
static char **tok; static int ntok, tp;
static char EOLTOK[] = "\n";
static void load_tokens(const char *fn)
{
	FILE *f = fopen(fn, "rb"); long sz; char *buf; int cap = 1024; char *line, *s, *save1 = 0, *save2 = 0;
	if (!f) { perror(fn); exit(2); }
	fseek(f, 0, SEEK_END); sz = ftell(f); fseek(f, 0, SEEK_SET);
	buf = malloc(sz + 1); if (fread(buf, 1, sz, f) != (size_t)sz) exit(2); buf[sz] = 0; fclose(f);
	tok = malloc(cap * sizeof(char*)); ntok = 0;
	for (line = strtok_r(buf, "\n", &save1); line; line = strtok_r(NULL, "\n", &save1)) {
		for (s = strtok_r(line, " \t\r", &save2); s; s = strtok_r(NULL, " \t\r", &save2)) {
			if (ntok + 2 >= cap) { cap *= 2; tok = realloc(tok, cap * sizeof(char*)); }
			tok[ntok++] = s;
		}
		if (ntok + 2 >= cap) { cap *= 2; tok = realloc(tok, cap * sizeof(char*)); }
		tok[ntok++] = EOLTOK;       /* end of command line */
	}
	tp = 0;
}
static void die(const char *m) { fprintf(tr, "{\"k\":\"X\",\"kind\":\"driver\",\"msg\":\"%s\",\"tp\":%d}\n", m, tp); fflush(tr); _exit(4); }
static char *nx(void) { while (tp < ntok && tok[tp] == EOLTOK) tp++; if (tp >= ntok) die("scenario truncated"); return tok[tp++]; }
static void skipline(void) { while (tp < ntok && tok[tp] != EOLTOK) tp++; }
static int nxi(void) { return (int)strtol(nx(), NULL, 10); }
static const char *nxname(void) { char *s = nx(); return (s[0] == '-' && s[1] == 0) ? NULL : s; }
static int nxh(void) { char *s = nx(); int h = atoi(s + 1); if (h < 0 || h >= MAXH) die("bad handle"); return h; }
static void setq(mpq_t q, const char *s)
{
	if (!strcmp(s, "inf")) mpq_set(q, mpq_ILL_MAXDOUBLE);
	else if (!strcmp(s, "-inf")) mpq_set(q, mpq_ILL_MINDOUBLE);
	else { if (mpq_set_str(q, s, 10)) die("bad rational"); mpq_canonicalize(q); }
}
static void nxq(mpq_t q) { setq(q, nx()); }

/* ---------------------------------------------------------------- json */
static char *jb; static size_t jl, jc; static int jfirst;
static void jput(const char *s, size_t n) { if (jl + n + 1 > jc) { jc = (jl + n + 1) * 2; jb = realloc(jb, jc); } memcpy(jb + jl, s, n); jl += n; jb[jl] = 0; }
static void jraw(const char *s) { jput(s, strlen(s)); }
static void jstrv(const char *s)
{
	const unsigned char *c; char t[8];
	if (!s) { jraw("\"\""); return; }
	jraw("\"");
	for (c = (const unsigned char*)s; *c; c++) {
		if (*c == '"' || *c == '\\') { t[0] = '\\'; t[1] = *c; jput(t, 2); }
		else if (*c < 32 || *c > 126) { snprintf(t, sizeof t, "\\u%04x", *c); jput(t, 6); }
		else jput((const char*)c, 1);
	}
	jraw("\"");
}
static void jintv(long v) { char t[32]; snprintf(t, sizeof t, "%ld", v); jraw(t); }
static void jqv(mpq_t q)
{
	if (mpq_equal(q, mpq_ILL_MAXDOUBLE)) { jraw("\"inf\""); return; }
	if (mpq_equal(q, mpq_ILL_MINDOUBLE)) { jraw("\"-inf\""); return; }
	{ size_t need = mpz_sizeinbase(mpq_numref(q), 10) + mpz_sizeinbase(mpq_denref(q), 10) + 5; char *t = malloc(need);
	  mpq_get_str(t, 10, q); jraw("\""); jraw(t); jraw("\""); free(t); }
}
static void jkey(const char *k) { if (!jfirst) jraw(","); jfirst = 0; jraw("\""); jraw(k); jraw("\":"); }
static void J_int(const char *k, long v) { jkey(k); jintv(v); }
static void J_str(const char *k, const char *s) { jkey(k); jstrv(s); }
static void J_q(const char *k, mpq_t q) { jkey(k); jqv(q); }
static void J_qarr(const char *k, mpq_t *a, int n) { int i; jkey(k); jraw("["); for (i = 0; i < n; i++) { if (i) jraw(","); jqv(a[i]); } jraw("]"); }
static void J_iarr(const char *k, int *a, int n) { int i; jkey(k); jraw("["); for (i = 0; i < n; i++) { if (i) jraw(","); jintv(a[i]); } jraw("]"); }
static void J_sarr(const char *k, char **a, int n) { int i; jkey(k); jraw("["); for (i = 0; i < n; i++) { if (i) jraw(","); jstrv(a[i]); } jraw("]"); }
static void J_chars(const char *k, const char *a, int n) { int i; char t[2] = {0, 0}; jkey(k); jraw("["); for (i = 0; i < n; i++) { if (i) jraw(","); t[0] = a[i]; if ((unsigned char)t[0] < 32 || (unsigned char)t[0] > 126) t[0] = '?'; jstrv(t); } jraw("]"); }
static void J_hname(const char *k, int h) { char t[8]; snprintf(t, sizeof t, "h%d", h); J_str(k, t); }
static void J_bname(const char *k, int b) { char t[8]; if (b < 0) { J_str(k, "-"); return; } snprintf(t, sizeof t, "b%d", b); J_str(k, t); }
/* sparse vectors as [{"j":..,"v":..},...] */
static void jsparse(int cnt, int *ind, mpq_t *val) { int i; jraw("["); for (i = 0; i < cnt; i++) { if (i) jraw(","); jraw("{\"j\":"); jintv(ind[i]); jraw(",\"v\":"); jqv(val[i]); jraw("}"); } jraw("]"); }

static off_t fdsize(int fd) { struct stat st; if (fstat(fd, &st)) return 0; return st.st_size; }

static const char *curcall = "";
static void ev_begin(const char *call)
{
	evn++; curcall = call;
	fprintf(tr, "{\"k\":\"S\",\"n\":%d,\"call\":\"%s\"}\n", evn, call); fflush(tr);
	jl = 0; jfirst = 1; if (jb) jb[0] = 0;
	jraw("{"); J_str("k", "E"); J_int("n", evn); J_str("call", call);
}
static void arm(void) { fflush(stdout); fflush(stderr); out0 = fdsize(1); err0 = fdsize(2); msgs = 0; msgbytes = 0; alarm(call_timeout); }
static void disarm(void) { alarm(0); }
static void J_res(mpq_QSprob p)
{
	jkey("res"); jraw("{"); jfirst = 1;
	if (!p) { J_int("null", 1); jraw("}"); jfirst = 0; return; }
	J_int("basis", p->basis ? 1 : 0);
	if (p->basis) { J_int("bn", p->basis->nstruct); J_int("bm", p->basis->nrows); J_int("norms", p->basis->rownorms ? 1 : 0);
		if (p->basis->rownorms) { int k, z = 0, sz = (int) __EGlpNumArraySize(p->basis->rownorms); for (k = 0; k < sz && k < p->basis->nrows; k++) if (mpq_sgn(p->basis->rownorms[k]) == 0) z++; J_int("normsz", sz); J_int("zeronorms", z); } }
	J_int("cache", p->cache ? 1 : 0);
	if (p->cache) J_int("cstatus", p->cache->status);
	J_int("qstatus", p->qstatus); J_int("factorok", p->factorok);
	J_int("basisid", p->lp ? p->lp->basisid : -2);
	jraw("}"); jfirst = 0;
}
static void ev_end(mpq_QSprob p)
{
	fflush(stdout); fflush(stderr);
	if (p) J_res(p);
	J_int("out", (long)(fdsize(1) - out0)); J_int("err", (long)(fdsize(2) - err0)); J_int("msgs", msgs); J_int("hon", handler_on);
	jraw("}\n");
	fwrite(jb, 1, jl, tr); fflush(tr);
}

/* ---------------------------------------------------------------- signals */
static void onsig(int sig)
{
	char t[160]; int n = snprintf(t, sizeof t, "{\"k\":\"X\",\"kind\":\"signal\",\"sig\":%d,\"n\":%d,\"call\":\"%s\"}\n", sig, evn, curcall);
	if (write(trfd, t, n) < 0) {}
	_exit(sig == SIGALRM ? 5 : 3);
}
static void loghandler(const char *m, void *d) { (void)d; msgs++; msgbytes += (long)strlen(m); }

/* ---------------------------------------------------------------- exact-driver hooks (QSOPT_EX_VERIF) */
extern void (*QSexact_verif_hook) (const char *ev, int a, int b);
extern int (*QSexact_verif_fault) (const char *where);
#define MAXHK 256
static struct { const char *e; int a, b; } hk[MAXHK]; static int nhk = 0, hk_over = 0;
static void hookfn(const char *ev, int a, int b) { if (nhk < MAXHK) { hk[nhk].e = ev; hk[nhk].a = a; hk[nhk].b = b; nhk++; } else hk_over = 1; }
static int fault_opt = 0, fault_inf = 0;   /* number of coming tests to fail (-1 = all) */
static int faultfn(const char *where)
{
	int *c = !strcmp(where, "opt_test") ? &fault_opt : &fault_inf;
	if (*c == 0) return 0;
	if (*c > 0) (*c)--;
	return 1;
}
static void J_hooks(void)
{
	int i; jkey("hook"); jraw("[");
	for (i = 0; i < nhk; i++) { if (i) jraw(","); jraw("{\"e\":"); jstrv(hk[i].e); jraw(",\"a\":"); jintv(hk[i].a); jraw(",\"b\":"); jintv(hk[i].b); jraw("}"); }
	jraw("]"); J_int("hook_over", hk_over);
}

/* ---------------------------------------------------------------- helpers */
static mpq_t *qalloc(int n) { int i; mpq_t *a = malloc((n > 0 ? n : 1) * sizeof(mpq_t)); for (i = 0; i < n; i++) mpq_init(a[i]); return a; }
static void qfree(mpq_t *a, int n) { int i; if (!a) return; for (i = 0; i < n; i++) mpq_clear(a[i]); free(a); }
static int sensech(const char *s) { if (!strcmp(s, "NUL")) return 0; if (s[0] == '#') return atoi(s + 1); return s[0]; }

/* read "cnt (ind val)*" */
static void rd_sparse(int *cnt, int **ind, mpq_t **val)
{
	int i; *cnt = nxi(); *ind = malloc((*cnt > 0 ? *cnt : 1) * sizeof(int)); *val = qalloc(*cnt > 0 ? *cnt : 0);
	for (i = 0; i < *cnt; i++) { (*ind)[i] = nxi(); nxq((*val)[i]); }
}

static void freestrs(char **a, int n) { int i; if (!a) return; for (i = 0; i < n; i++) if (a[i]) mpq_QSfree(a[i]); mpq_QSfree(a); }

/* full dump through the query API only */
static void do_dump(int h, const char *callname)
{
	mpq_QSprob p = H[h]; int m, n, nz, i, rv, os = 0;
	ev_begin(callname); J_hname("h", h);
	if (!p) { J_int("nullh", 1); arm(); disarm(); ev_end(NULL); return; }
	arm();
	m = mpq_QSget_rowcount(p); n = mpq_QSget_colcount(p); nz = mpq_QSget_nzcount(p);
	J_int("nrows", m); J_int("ncols", n); J_int("nz", nz);
	rv = mpq_QSget_objsense(p, &os); J_int("rv_objsense", rv); J_int("objsense", os);
	{ char *s = mpq_QSget_probname(p); J_str("pname", s); if (s) mpq_QSfree(s); s = mpq_QSget_objname(p); J_str("objname", s); if (s) mpq_QSfree(s); }
	{ mpq_t *a = qalloc(n), *b = qalloc(n);
	  rv = mpq_QSget_obj(p, a); J_int("rv_obj", rv); J_qarr("obj", a, n);
	  rv = mpq_QSget_bounds(p, a, b); J_int("rv_bounds", rv); J_qarr("lo", a, n); J_qarr("up", b, n);
	  qfree(a, n); qfree(b, n); }
	{ mpq_t *a = qalloc(m); char *s = malloc(m + 1);
	  rv = mpq_QSget_rhs(p, a); J_int("rv_rhs", rv); J_qarr("rhs", a, m);
	  memset(s, '?', m); rv = mpq_QSget_senses(p, s); J_int("rv_senses", rv); J_chars("sense", s, m);
	  qfree(a, m); free(s); }
	{ int *ifl = calloc(n > 0 ? n : 1, sizeof(int)); rv = mpq_QSget_intflags(p, ifl); J_int("rv_intflags", rv); J_iarr("isint", ifl, n); free(ifl); }
	{ /* ranged rows: rows + range */
	  int *rowcnt = 0, *rowbeg = 0, *rowind = 0; mpq_t *rowval = 0, *rhs = 0, *range = 0; char *sense = 0; char **names = 0;
	  rv = mpq_QSget_ranged_rows(p, &rowcnt, &rowbeg, &rowind, &rowval, &rhs, &sense, &range, &names);
	  J_int("rv_rrows", rv);
	  if (!rv) {
		jkey("rows"); jraw("[");
		for (i = 0; i < m; i++) { if (i) jraw(","); jsparse(rowcnt[i], rowind + rowbeg[i], rowval + rowbeg[i]); }
		jraw("]");
		if (range) J_qarr("range", range, m); else { jkey("range"); jraw("[]"); }
		if (rhs) J_qarr("rr_rhs", rhs, m); else { jkey("rr_rhs"); jraw("[]"); }
		if (sense) J_chars("rr_sense", sense, m); else { jkey("rr_sense"); jraw("[]"); }
		if (names) J_sarr("rnames", names, m); else { jkey("rnames"); jraw("[]"); }
	  }
	  if (rowcnt) mpq_QSfree(rowcnt); if (rowbeg) mpq_QSfree(rowbeg); if (rowind) mpq_QSfree(rowind);
	  if (rowval) mpq_EGlpNumFreeArray(rowval); if (rhs) mpq_EGlpNumFreeArray(rhs); if (range) mpq_EGlpNumFreeArray(range);
	  if (sense) mpq_QSfree(sense); freestrs(names, m);
	}
	{ /* plain get_rows as a second view */
	  int *rowcnt = 0, *rowbeg = 0, *rowind = 0; mpq_t *rowval = 0, *rhs = 0; char *sense = 0; char **names = 0;
	  rv = mpq_QSget_rows(p, &rowcnt, &rowbeg, &rowind, &rowval, &rhs, &sense, &names);
	  J_int("rv_rows", rv);
	  if (!rv) {
		jkey("rows2"); jraw("[");
		for (i = 0; i < m; i++) { if (i) jraw(","); jsparse(rowcnt[i], rowind + rowbeg[i], rowval + rowbeg[i]); }
		jraw("]");
	  }
	  if (rowcnt) mpq_QSfree(rowcnt); if (rowbeg) mpq_QSfree(rowbeg); if (rowind) mpq_QSfree(rowind);
	  if (rowval) mpq_EGlpNumFreeArray(rowval); if (rhs) mpq_EGlpNumFreeArray(rhs);
	  if (sense) mpq_QSfree(sense); freestrs(names, m);
	}
	{ int *cc = 0, *cb = 0, *ci = 0; mpq_t *cv = 0, *obj = 0, *lo = 0, *up = 0; char **names = 0;
	  rv = mpq_QSget_columns(p, &cc, &cb, &ci, &cv, &obj, &lo, &up, &names);
	  J_int("rv_cols", rv);
	  if (!rv) {
		jkey("cols"); jraw("[");
		for (i = 0; i < n; i++) { if (i) jraw(","); jsparse(cc[i], ci + cb[i], cv + cb[i]); }
		jraw("]");
		if (obj) J_qarr("c_obj", obj, n); else { jkey("c_obj"); jraw("[]"); } if (lo) J_qarr("c_lo", lo, n); else { jkey("c_lo"); jraw("[]"); } if (up) J_qarr("c_up", up, n); else { jkey("c_up"); jraw("[]"); }
		if (names) J_sarr("cnames", names, n); else { jkey("cnames"); jraw("[]"); }
	  }
	  if (cc) mpq_QSfree(cc); if (cb) mpq_QSfree(cb); if (ci) mpq_QSfree(ci);
	  if (cv) mpq_EGlpNumFreeArray(cv); if (obj) mpq_EGlpNumFreeArray(obj); if (lo) mpq_EGlpNumFreeArray(lo); if (up) mpq_EGlpNumFreeArray(up);
	  freestrs(names, n);
	}
	{ /* names via get_rownames/get_colnames and the index lookups */
	  char **rn = calloc(m > 0 ? m : 1, sizeof(char*)), **cn = calloc(n > 0 ? n : 1, sizeof(char*)); int *ri = malloc((m > 0 ? m : 1) * sizeof(int)), *ci = malloc((n > 0 ? n : 1) * sizeof(int));
	  rv = mpq_QSget_rownames(p, rn); J_int("rv_rownames", rv); if (!rv) J_sarr("rnames2", rn, m); else { jkey("rnames2"); jraw("[]"); jkey("ridx"); jraw("[]"); }
	  if (!rv) { for (i = 0; i < m; i++) { ri[i] = -7; if (rn[i]) { int r2 = mpq_QSget_row_index(p, rn[i], &ri[i]); if (r2) ri[i] = -9; } } J_iarr("ridx", ri, m); }
	  for (i = 0; i < m; i++) if (rn[i]) mpq_QSfree(rn[i]);
	  rv = mpq_QSget_colnames(p, cn); J_int("rv_colnames", rv); if (!rv) J_sarr("cnames2", cn, n); else { jkey("cnames2"); jraw("[]"); jkey("cidx"); jraw("[]"); }
	  if (!rv) { for (i = 0; i < n; i++) { ci[i] = -7; if (cn[i]) { int r2 = mpq_QSget_column_index(p, cn[i], &ci[i]); if (r2) ci[i] = -9; } } J_iarr("cidx", ci, n); }
	  for (i = 0; i < n; i++) if (cn[i]) mpq_QSfree(cn[i]);
	  free(rn); free(cn); free(ri); free(ci);
	}
	{ int v, k; static const int ks[] = {QS_PARAM_PRIMAL_PRICING, QS_PARAM_DUAL_PRICING, QS_PARAM_SIMPLEX_DISPLAY, QS_PARAM_SIMPLEX_MAX_ITERATIONS, QS_PARAM_SIMPLEX_SCALING};
	  static const char *kn[] = {"ppricing", "dpricing", "display", "maxiter", "scaling"};
	  jkey("par"); jraw("{"); jfirst = 1;
	  for (k = 0; k < 5; k++) { v = -1; rv = mpq_QSget_param(p, ks[k], &v); J_int(kn[k], rv ? -99 : v); }
	  { mpq_t q; mpq_init(q); rv = mpq_QSget_param_EGlpNum(p, QS_PARAM_OBJULIM, &q); if (!rv) J_q("objulim", q);
	    rv = mpq_QSget_param_EGlpNum(p, QS_PARAM_OBJLLIM, &q); if (!rv) J_q("objllim", q);
	    rv = mpq_QSget_param_EGlpNum(p, QS_PARAM_SIMPLEX_MAX_TIME, &q); if (!rv) J_q("maxtime", q); mpq_clear(q); }
	  jraw("}"); jfirst = 0; }
	/* the raw column store (ILLmatrix) behind all of the above: spec/ColStore.tla is evaluated on it */
	if (p->qslp && p->qslp->A.matsize - p->qslp->A.matfree <= 20000 && p->qslp->A.matfree >= 0 && p->qslp->A.matfree <= p->qslp->A.matsize) {
	  mpq_ILLmatrix *A = &p->qslp->A; int used = A->matsize - A->matfree, k, run;
	  jkey("store"); jraw("{"); jfirst = 1;
	  J_int("cap", A->matsize); J_int("free", A->matfree); J_int("nrows", A->matrows); J_int("ncols", A->matcols);
	  J_int("nstruct", p->qslp->nstruct); J_int("lprows", p->qslp->nrows);
	  J_iarr("beg", A->matbeg, A->matcols); J_iarr("cnt", A->matcnt, A->matcols);
	  J_iarr("ind", A->matind, used);
	  jkey("val"); jraw("["); for (k = 0; k < used; k++) { if (k) jraw(","); if (A->matind[k] == -1) jraw("\"0\""); else jqv(A->matval[k]); } jraw("]");
	  jkey("tail"); jraw("[");           /* run-length encoded free tail: normally one run of -1 */
	  for (k = used, run = 0; k < A->matsize; ) { int v = A->matind[k], c = 0; while (k < A->matsize && A->matind[k] == v) { k++; c++; }
	    if (run++) jraw(","); jraw("{\"v\":"); jintv(v); jraw(",\"c\":"); jintv(c); jraw("}"); if (run > 50) break; }
	  jraw("]");
	  J_iarr("structmap", p->qslp->structmap, p->qslp->nstruct); J_iarr("rowmap", p->qslp->rowmap, p->qslp->nrows);
	  /* bounds of the logical columns (the standard form the simplex works on) */
	  { int i2, okm = 1; for (i2 = 0; i2 < p->qslp->nrows; i2++) if (p->qslp->rowmap[i2] < 0 || p->qslp->rowmap[i2] >= A->matcols) okm = 0;
	    if (okm && p->qslp->lower && p->qslp->upper) {
	      jkey("lglo"); jraw("["); for (i2 = 0; i2 < p->qslp->nrows; i2++) { if (i2) jraw(","); jqv(p->qslp->lower[p->qslp->rowmap[i2]]); } jraw("]");
	      jkey("lgup"); jraw("["); for (i2 = 0; i2 < p->qslp->nrows; i2++) { if (i2) jraw(","); jqv(p->qslp->upper[p->qslp->rowmap[i2]]); } jraw("]");
	    } }
	  jraw("}"); jfirst = 0;
	}
	disarm();
	ev_end(p);
}

/* log the stored basis (via get_basis_array) as part of an event */
static void J_basisarrays(mpq_QSprob p)
{
	int m = mpq_QSget_rowcount(p), n = mpq_QSget_colcount(p), rv;
	char *cs = malloc(n + 1), *rs = malloc(m + 1); memset(cs, '?', n); memset(rs, '?', m);
	rv = mpq_QSget_basis_array(p, cs, rs); J_int("rv_ba", rv);
	if (!rv) { J_chars("cstat", cs, n); J_chars("rstat", rs, m); }
	free(cs); free(rs);
}

static void do_sol(int h)
{
	mpq_QSprob p = H[h]; int m, n, rv, st = -1; mpq_t v; mpq_t *x, *pi, *rc, *sl;
	ev_begin("sol"); J_hname("h", h);
	if (!p) { J_int("nullh", 1); arm(); disarm(); ev_end(NULL); return; }
	arm();
	m = mpq_QSget_rowcount(p); n = mpq_QSget_colcount(p);
	mpq_init(v); x = qalloc(n); rc = qalloc(n); pi = qalloc(m); sl = qalloc(m);
	rv = mpq_QSget_status(p, &st); J_int("rv_status", rv); J_int("status", st);
	rv = mpq_QSget_objval(p, &v); J_int("rv_objval", rv); if (!rv) J_q("objval", v);
	rv = mpq_QSget_x_array(p, x); J_int("rv_x", rv); if (!rv) J_qarr("x", x, n);
	rv = mpq_QSget_pi_array(p, pi); J_int("rv_pi", rv); if (!rv) J_qarr("pi", pi, m);
	rv = mpq_QSget_rc_array(p, rc); J_int("rv_rc", rv); if (!rv) J_qarr("rc", rc, n);
	rv = mpq_QSget_slack_array(p, sl); J_int("rv_slack", rv); if (!rv) J_qarr("slack", sl, m);
	rv = mpq_QSget_solution(p, &v, x, pi, sl, rc); J_int("rv_gs", rv);
	if (!rv) { jkey("gs"); jraw("{"); jfirst = 1; J_q("val", v); J_qarr("x", x, n); J_qarr("pi", pi, m); J_qarr("slack", sl, m); J_qarr("rc", rc, n); jraw("}"); jfirst = 0; }
	/* named accessors on first/last column and row */
	if (n > 0) { char **cn = calloc(n, sizeof(char*)); int i;
	  if (!mpq_QSget_colnames(p, cn)) { int j = n - 1; if (cn[j]) { rv = mpq_QSget_named_x(p, cn[j], &v); J_int("rv_nx", rv); if (!rv) J_q("nx", v);
	     rv = mpq_QSget_named_rc(p, cn[j], &v); J_int("rv_nrc", rv); if (!rv) J_q("nrc", v); } }
	  for (i = 0; i < n; i++) if (cn[i]) mpq_QSfree(cn[i]); free(cn); }
	if (m > 0) { char **rn = calloc(m, sizeof(char*)); int i;
	  if (!mpq_QSget_rownames(p, rn)) { int j = m - 1; if (rn[j]) { rv = mpq_QSget_named_pi(p, rn[j], &v); J_int("rv_npi", rv); if (!rv) J_q("npi", v);
	     rv = mpq_QSget_named_slack(p, rn[j], &v); J_int("rv_nsl", rv); if (!rv) J_q("nsl", v); } }
	  for (i = 0; i < m; i++) if (rn[i]) mpq_QSfree(rn[i]); free(rn); }
	if (p->basis) J_basisarrays(p);
	disarm();
	mpq_clear(v); qfree(x, n); qfree(rc, n); qfree(pi, m); qfree(sl, m);
	ev_end(p);
}

static void J_qsbasis(const char *kc, const char *kr, QSbasis *b)
{
	if (!b) return;
	J_int("b_n", b->nstruct); J_int("b_m", b->nrows);
	if (b->cstat) J_chars(kc, b->cstat, b->nstruct); if (b->rstat) J_chars(kr, b->rstat, b->nrows);
}

static QSbasis *mkbasis(const char *cs, const char *rs)
{
	QSbasis *b = calloc(1, sizeof(QSbasis)); int n = (cs[0] == '-' ? 0 : (int)strlen(cs)), m = (rs[0] == '-' ? 0 : (int)strlen(rs)), i;
	b->nstruct = n; b->nrows = m;
	/* allocate with the library allocator so that mpq_QSfree_basis can release it */
	ILL_SAFE_MALLOC_no_rval(b->cstat, n > 0 ? n : 1, char); ILL_SAFE_MALLOC_no_rval(b->rstat, m > 0 ? m : 1, char);
	for (i = 0; i < n; i++) b->cstat[i] = cs[i]; for (i = 0; i < m; i++) b->rstat[i] = rs[i];
CLEANUP:
	return b;
}

/* ---------------------------------------------------------------- main loop */
int main(int argc, char **argv)
{
	int i, fo, fe; char *e;
	if (argc < 5) { fprintf(stderr, "usage: qsx scen trace out err\n"); return 2; }
	if ((e = getenv("QSX_CALL_TIMEOUT"))) call_timeout = atoi(e);
	tr = fopen(argv[2], "w"); if (!tr) { perror(argv[2]); return 2; } trfd = fileno(tr);
	fo = open(argv[3], O_WRONLY | O_CREAT | O_TRUNC, 0644); fe = open(argv[4], O_WRONLY | O_CREAT | O_TRUNC, 0644);
	if (fo < 0 || fe < 0) return 2;
	dup2(fo, 1); dup2(fe, 2); close(fo); close(fe);
	if (!getenv("QSX_NOSIG")) { signal(SIGSEGV, onsig); signal(SIGFPE, onsig); }
	if (0) { signal(SIGSEGV, onsig); signal(SIGFPE, onsig); signal(SIGABRT, onsig); signal(SIGBUS, onsig); signal(SIGALRM, onsig); signal(SIGILL, onsig); }
	signal(SIGABRT, onsig); signal(SIGBUS, onsig); signal(SIGALRM, onsig); signal(SIGILL, onsig);
	load_tokens(argv[1]);
	QSexactStart();
	QSexact_set_precision(128);
	QSexact_verif_hook = hookfn;
	QSexact_verif_fault = faultfn;
	while (tp < ntok) {
		char *c;
		while (tp < ntok && tok[tp] == EOLTOK) tp++;
		if (tp >= ntok) break;
		c = nx();
		/* a call on a handle that does not exist (its creation failed earlier) is not made */
		if (tp < ntok && tok[tp] != EOLTOK && tok[tp][0] == 'h' && tok[tp][1] >= '0' && tok[tp][1] <= '9' && tok[tp][2] == 0
				&& strcmp(c, "create") && strcmp(c, "load") && strcmp(c, "read_prob") && strcmp(c, "free") && strcmp(c, "dump") && strcmp(c, "sol") && strcmp(c, "copy")
				&& !H[atoi(tok[tp] + 1)]) {
			ev_begin(c); J_str("h", tok[tp]); J_int("nullh", 1); arm(); disarm(); ev_end(NULL); skipline(); continue; }
		if (!strcmp(c, "#")) { /* comment token followed by one word */ nx(); continue; }
		else if (!strcmp(c, "handler")) { char *s = nx(); ev_begin("handler"); J_str("mode", s); arm();
			if (!strcmp(s, "on")) { QSlog_set_handler(loghandler, NULL); handler_on = 1; } else { QSlog_set_handler(NULL, NULL); handler_on = 0; }
			disarm(); ev_end(NULL); }
		else if (!strcmp(c, "precision")) { int b = nxi(); ev_begin("precision"); J_int("bits", b); arm(); QSexact_set_precision((unsigned)b); disarm(); ev_end(NULL); }
		else if (!strcmp(c, "fault")) { char *w = nx(); int k = nxi(); ev_begin("fault"); J_str("where", w); J_int("count", k); arm(); if (!strcmp(w, "opt_test")) fault_opt = k; else fault_inf = k; disarm(); ev_end(NULL); }
		else if (!strcmp(c, "raw")) { /* raw <hex-encoded JSON object body>: a harness-made event (witness, pseudo call) logged verbatim */
			char *hx = nx(); int L = (int)strlen(hx) / 2, k; char *t = malloc(L + 1);
			for (k = 0; k < L; k++) { unsigned v; sscanf(hx + 2 * k, "%2x", &v); t[k] = (char)v; } t[L] = 0;
			evn++; fprintf(tr, "{\"k\":\"E\",\"n\":%d,%s\n", evn, t[0] == '{' ? t + 1 : t); fflush(tr); free(t); }
		else if (!strcmp(c, "scenario")) { char *s = nx(); ev_begin("scenario"); J_str("id", s); arm(); disarm(); ev_end(NULL); }
		else if (!strcmp(c, "create")) { int h = nxh(); const char *nm = nxname(); char *s = nx(); int os = !strcmp(s, "min") ? QS_MIN : !strcmp(s, "max") ? QS_MAX : atoi(s);
			ev_begin("create"); J_hname("h", h); J_str("name", nm); J_int("objsense", os); arm();
			H[h] = mpq_QScreate_prob(nm, os); disarm(); J_int("ok", H[h] ? 1 : 0); ev_end(H[h]); }
		else if (!strcmp(c, "load")) {
			int h = nxh(); const char *nm = nxname(); int nc = nxi(), nr = nxi(); char *s = nx(); int os = !strcmp(s, "min") ? QS_MIN : !strcmp(s, "max") ? QS_MAX : atoi(s);
			int *cnt = malloc((nc + 1) * sizeof(int)), *beg = malloc((nc + 1) * sizeof(int)), *ind = 0; mpq_t *val = 0; int tot = 0, cap = 16, j, k;
			mpq_t *obj = qalloc(nc), *lo = qalloc(nc), *up = qalloc(nc), *rhs = qalloc(nr); char *sense = malloc(nr + 1); const char **cn = malloc((nc + 1) * sizeof(char*)), **rn = malloc((nr + 1) * sizeof(char*));
			ind = malloc(cap * sizeof(int)); val = malloc(cap * sizeof(mpq_t));
			ev_begin("load"); J_hname("h", h); J_str("name", nm); J_int("nc", nc); J_int("nr", nr); J_int("objsense", os);
			jkey("cols"); jraw("[");
			for (j = 0; j < nc; j++) { cnt[j] = nxi(); beg[j] = tot; if (j) jraw(","); jraw("[");
				for (k = 0; k < cnt[j]; k++) { if (tot == cap) { cap *= 2; ind = realloc(ind, cap * sizeof(int)); val = realloc(val, cap * sizeof(mpq_t)); }
					ind[tot] = nxi(); mpq_init(val[tot]); nxq(val[tot]); if (k) jraw(","); jraw("{\"j\":"); jintv(ind[tot]); jraw(",\"v\":"); jqv(val[tot]); jraw("}"); tot++; }
				jraw("]"); }
			jraw("]");
			for (j = 0; j < nc; j++) { nxq(obj[j]); nxq(lo[j]); nxq(up[j]); cn[j] = nxname(); }
			for (j = 0; j < nr; j++) { nxq(rhs[j]); sense[j] = (char)sensech(nx()); rn[j] = nxname(); }
			J_qarr("obj", obj, nc); J_qarr("lo", lo, nc); J_qarr("up", up, nc); J_sarr("cnames", (char**)cn, nc);
			J_qarr("rhs", rhs, nr); J_chars("sense", sense, nr); J_sarr("rnames", (char**)rn, nr);
			arm(); H[h] = mpq_QSload_prob(nm, nc, nr, cnt, beg, ind, val, os, obj, rhs, sense, lo, up, cn, rn); disarm();
			J_int("ok", H[h] ? 1 : 0); ev_end(H[h]);
			for (k = 0; k < tot; k++) mpq_clear(val[k]); free(val); free(ind); free(cnt); free(beg); qfree(obj, nc); qfree(lo, nc); qfree(up, nc); qfree(rhs, nr); free(sense); free(cn); free(rn); }
		else if (!strcmp(c, "copy") && tp + 1 < ntok && !H[atoi(tok[tp + 1] + 1)]) { ev_begin(c); J_str("h2", tok[tp]); J_str("h", tok[tp + 1]); J_int("ok", 0); J_int("nullh", 1); arm(); disarm(); ev_end(NULL); skipline(); }
		else if (!strcmp(c, "copy")) { int h2 = nxh(), h = nxh(); const char *nm = nxname(); ev_begin("copy"); J_hname("h2", h2); J_hname("h", h); J_str("name", nm); arm();
			H[h2] = H[h] ? mpq_QScopy_prob(H[h], nm) : NULL; disarm(); J_int("ok", H[h2] ? 1 : 0); ev_end(H[h2]); }
		else if (!strcmp(c, "free")) { int h = nxh(); ev_begin("free"); J_hname("h", h); arm(); if (H[h]) mpq_QSfree_prob(H[h]); H[h] = NULL; disarm(); ev_end(NULL); }
		else if (!strcmp(c, "new_col")) { int h = nxh(); mpq_t o, l, u; const char *nm; int rv; mpq_init(o); mpq_init(l); mpq_init(u); nxq(o); nxq(l); nxq(u); nm = nxname();
			ev_begin("new_col"); J_hname("h", h); J_q("obj", o); J_q("lo", l); J_q("up", u); J_str("name", nm); arm(); rv = mpq_QSnew_col(H[h], o, l, u, nm); disarm(); J_int("rval", rv); ev_end(H[h]); mpq_clear(o); mpq_clear(l); mpq_clear(u); }
		else if (!strcmp(c, "add_col")) { int h = nxh(), cnt, *ind, rv; mpq_t *val, o, l, u; const char *nm; rd_sparse(&cnt, &ind, &val); mpq_init(o); mpq_init(l); mpq_init(u); nxq(o); nxq(l); nxq(u); nm = nxname();
			ev_begin("add_col"); J_hname("h", h); jkey("ent"); jsparse(cnt, ind, val); J_q("obj", o); J_q("lo", l); J_q("up", u); J_str("name", nm); arm();
			rv = mpq_QSadd_col(H[h], cnt, ind, val, o, l, u, nm); disarm(); J_int("rval", rv); ev_end(H[h]); qfree(val, cnt); free(ind); mpq_clear(o); mpq_clear(l); mpq_clear(u); }
		else if (!strcmp(c, "add_cols")) { int h = nxh(), num = nxi(), j, k, tot = 0, cap = 16, rv; int *cnt = malloc((num + 1) * sizeof(int)), *beg = malloc((num + 1) * sizeof(int)), *ind = malloc(cap * sizeof(int)); mpq_t *val = malloc(cap * sizeof(mpq_t));
			mpq_t *obj = qalloc(num), *lo = qalloc(num), *up = qalloc(num); const char **nm = malloc((num + 1) * sizeof(char*)); int nullnames = 1;
			ev_begin("add_cols"); J_hname("h", h); J_int("num", num); jkey("cols"); jraw("[");
			for (j = 0; j < num; j++) { cnt[j] = nxi(); beg[j] = tot; if (j) jraw(","); jraw("{\"ent\":[");
				for (k = 0; k < cnt[j]; k++) { if (tot == cap) { cap *= 2; ind = realloc(ind, cap * sizeof(int)); val = realloc(val, cap * sizeof(mpq_t)); }
					ind[tot] = nxi(); mpq_init(val[tot]); nxq(val[tot]); if (k) jraw(","); jraw("{\"j\":"); jintv(ind[tot]); jraw(",\"v\":"); jqv(val[tot]); jraw("}"); tot++; }
				nxq(obj[j]); nxq(lo[j]); nxq(up[j]); nm[j] = nxname(); if (nm[j]) nullnames = 0;
				jraw("],\"obj\":"); jqv(obj[j]); jraw(",\"lo\":"); jqv(lo[j]); jraw(",\"up\":"); jqv(up[j]); jraw(",\"name\":"); jstrv(nm[j]); jraw("}"); }
			jraw("]"); arm(); rv = mpq_QSadd_cols(H[h], num, cnt, beg, ind, val, obj, lo, up, nullnames ? NULL : nm); disarm(); J_int("rval", rv); ev_end(H[h]);
			for (k = 0; k < tot; k++) mpq_clear(val[k]); free(val); free(ind); free(cnt); free(beg); qfree(obj, num); qfree(lo, num); qfree(up, num); free(nm); }
		else if (!strcmp(c, "new_row")) { int h = nxh(), rv, s; mpq_t r; const char *nm; mpq_init(r); nxq(r); s = sensech(nx()); nm = nxname();
			ev_begin("new_row"); J_hname("h", h); J_q("rhs", r); { char t[2] = {(char)s, 0}; if (s >= 32 && s < 127) J_str("sense", t); else J_str("sense", "?"); } J_str("name", nm); arm(); rv = mpq_QSnew_row(H[h], r, s, nm); disarm(); J_int("rval", rv); ev_end(H[h]); mpq_clear(r); }
		else if (!strcmp(c, "add_row") || !strcmp(c, "add_ranged_row")) { int ranged = c[4] == 'r' && c[5] == 'a'; int h = nxh(), cnt, *ind, rv, s; mpq_t *val, r, g; const char *nm; rd_sparse(&cnt, &ind, &val); mpq_init(r); mpq_init(g); nxq(r); s = sensech(nx()); if (ranged) nxq(g); nm = nxname();
			ev_begin(ranged ? "add_ranged_row" : "add_row"); J_hname("h", h); jkey("ent"); jsparse(cnt, ind, val); J_q("rhs", r); { char t[2] = {(char)s, 0}; if (s >= 32 && s < 127) J_str("sense", t); else J_str("sense", "?"); } if (ranged) J_q("range", g); J_str("name", nm); arm();
			rv = ranged ? mpq_QSadd_ranged_row(H[h], cnt, ind, val, &r, s, &g, nm) : mpq_QSadd_row(H[h], cnt, ind, val, &r, s, nm); disarm(); J_int("rval", rv); ev_end(H[h]); qfree(val, cnt); free(ind); mpq_clear(r); mpq_clear(g); }
		else if (!strcmp(c, "add_rows") || !strcmp(c, "add_ranged_rows")) { int ranged = c[4] == 'r' && c[5] == 'a'; int h = nxh(), num = nxi(), j, k, tot = 0, cap = 16, rv; int *cnt = malloc((num + 1) * sizeof(int)), *beg = malloc((num + 1) * sizeof(int)), *ind = malloc(cap * sizeof(int)); mpq_t *val = malloc(cap * sizeof(mpq_t));
			mpq_t *rhs = qalloc(num), *rng = qalloc(num); char *sense = malloc(num + 1); const char **nm = malloc((num + 1) * sizeof(char*)); int nullnames = 1;
			ev_begin(ranged ? "add_ranged_rows" : "add_rows"); J_hname("h", h); J_int("num", num); jkey("rows"); jraw("[");
			for (j = 0; j < num; j++) { cnt[j] = nxi(); beg[j] = tot; if (j) jraw(","); jraw("{\"ent\":[");
				for (k = 0; k < cnt[j]; k++) { if (tot == cap) { cap *= 2; ind = realloc(ind, cap * sizeof(int)); val = realloc(val, cap * sizeof(mpq_t)); }
					ind[tot] = nxi(); mpq_init(val[tot]); nxq(val[tot]); if (k) jraw(","); jraw("{\"j\":"); jintv(ind[tot]); jraw(",\"v\":"); jqv(val[tot]); jraw("}"); tot++; }
				nxq(rhs[j]); sense[j] = (char)sensech(nx()); if (ranged) nxq(rng[j]); nm[j] = nxname(); if (nm[j]) nullnames = 0;
				jraw("],\"rhs\":"); jqv(rhs[j]); { char t[2] = {sense[j], 0}; if (t[0] < 32 || t[0] > 126) t[0] = '?'; jraw(",\"sense\":"); jstrv(t); } if (ranged) { jraw(",\"range\":"); jqv(rng[j]); } jraw(",\"name\":"); jstrv(nm[j]); jraw("}"); }
			jraw("]"); arm(); rv = ranged ? mpq_QSadd_ranged_rows(H[h], num, cnt, beg, ind, val, rhs, sense, rng, nullnames ? NULL : nm) : mpq_QSadd_rows(H[h], num, cnt, beg, ind, val, rhs, sense, nullnames ? NULL : nm); disarm(); J_int("rval", rv); ev_end(H[h]);
			for (k = 0; k < tot; k++) mpq_clear(val[k]); free(val); free(ind); free(cnt); free(beg); qfree(rhs, num); qfree(rng, num); free(sense); free(nm); }
		else if (!strcmp(c, "delete_row") || !strcmp(c, "delete_col")) { int col = c[7] == 'c'; int h = nxh(), i2 = nxi(), rv; ev_begin(c); J_hname("h", h); J_int("i", i2); arm(); rv = col ? mpq_QSdelete_col(H[h], i2) : mpq_QSdelete_row(H[h], i2); disarm(); J_int("rval", rv); ev_end(H[h]); }
		else if (!strcmp(c, "delete_rows") || !strcmp(c, "delete_cols")) { int col = c[7] == 'c'; int h = nxh(), num = nxi(), rv, k; int *l = malloc((num > 0 ? num : 1) * sizeof(int)); for (k = 0; k < num; k++) l[k] = nxi();
			ev_begin(c); J_hname("h", h); J_int("num", num); J_iarr("list", l, num > 0 ? num : 0); arm(); rv = col ? mpq_QSdelete_cols(H[h], num, l) : mpq_QSdelete_rows(H[h], num, l); disarm(); J_int("rval", rv); ev_end(H[h]); free(l); }
		else if (!strcmp(c, "delete_setrows") || !strcmp(c, "delete_setcols")) { int col = c[10] == 'c'; int h = nxh(), num = nxi(), rv, k; int cntnow = H[h] ? (col ? mpq_QSget_colcount(H[h]) : mpq_QSget_rowcount(H[h])) : 0; int *l = calloc((num > cntnow ? num : cntnow) + 1, sizeof(int)); for (k = 0; k < num; k++) l[k] = nxi();
			ev_begin(c); J_hname("h", h); J_iarr("flags", l, cntnow); arm(); rv = col ? mpq_QSdelete_setcols(H[h], l) : mpq_QSdelete_setrows(H[h], l); disarm(); J_int("rval", rv); ev_end(H[h]); free(l); }
		else if (!strcmp(c, "delete_named_row") || !strcmp(c, "delete_named_column")) { int col = c[13] == 'c'; int h = nxh(), rv; const char *nm = nxname(); ev_begin(c); J_hname("h", h); J_str("name", nm); arm(); rv = col ? mpq_QSdelete_named_column(H[h], nm) : mpq_QSdelete_named_row(H[h], nm); disarm(); J_int("rval", rv); ev_end(H[h]); }
		else if (!strcmp(c, "delete_named_rows") || !strcmp(c, "delete_named_columns")) { int col = c[13] == 'c'; int h = nxh(), num = nxi(), rv, k; const char **l = malloc((num > 0 ? num : 1) * sizeof(char*)); for (k = 0; k < num; k++) l[k] = nxname();
			ev_begin(c); J_hname("h", h); J_int("num", num); J_sarr("names", (char**)l, num > 0 ? num : 0); arm(); rv = col ? mpq_QSdelete_named_columns_list(H[h], num, l) : mpq_QSdelete_named_rows_list(H[h], num, l); disarm(); J_int("rval", rv); ev_end(H[h]); free(l); }
		else if (!strcmp(c, "change_coef")) { int h = nxh(), i2 = nxi(), j2 = nxi(), rv; mpq_t v; mpq_init(v); nxq(v); ev_begin(c); J_hname("h", h); J_int("i", i2); J_int("j", j2); J_q("v", v); arm(); rv = mpq_QSchange_coef(H[h], i2, j2, v); disarm(); J_int("rval", rv); ev_end(H[h]); mpq_clear(v); }
		else if (!strcmp(c, "change_objcoef") || !strcmp(c, "change_rhscoef") || !strcmp(c, "change_range")) { int h = nxh(), i2 = nxi(), rv; mpq_t v; mpq_init(v); nxq(v); ev_begin(c); J_hname("h", h); J_int("i", i2); J_q("v", v); arm();
			rv = c[7] == 'o' ? mpq_QSchange_objcoef(H[h], i2, v) : c[8] == 'h' ? mpq_QSchange_rhscoef(H[h], i2, v) : mpq_QSchange_range(H[h], i2, v); disarm(); J_int("rval", rv); ev_end(H[h]); mpq_clear(v); }
		else if (!strcmp(c, "change_sense")) { int h = nxh(), i2 = nxi(), s = sensech(nx()), rv; ev_begin(c); J_hname("h", h); J_int("i", i2); { char t[2] = {(char)s, 0}; if (s >= 32 && s < 127) J_str("sense", t); else J_str("sense", "?"); } arm(); rv = mpq_QSchange_sense(H[h], i2, s); disarm(); J_int("rval", rv); ev_end(H[h]); }
		else if (!strcmp(c, "change_senses")) { int h = nxh(), num = nxi(), rv, k; int *l = malloc((num > 0 ? num : 1) * sizeof(int)); char *s = malloc((num > 0 ? num : 1) + 1); for (k = 0; k < num; k++) { l[k] = nxi(); s[k] = (char)sensech(nx()); }
			ev_begin(c); J_hname("h", h); J_int("num", num); J_iarr("list", l, num > 0 ? num : 0); J_chars("senses", s, num > 0 ? num : 0); arm(); rv = mpq_QSchange_senses(H[h], num, l, s); disarm(); J_int("rval", rv); ev_end(H[h]); free(l); free(s); }
		else if (!strcmp(c, "change_bound")) { int h = nxh(), j2 = nxi(), lu = sensech(nx()), rv; mpq_t v; mpq_init(v); nxq(v); ev_begin(c); J_hname("h", h); J_int("j", j2); { char t[2] = {(char)lu, 0}; if (lu >= 32 && lu < 127) J_str("lu", t); else J_str("lu", "?"); } J_q("v", v); arm(); rv = mpq_QSchange_bound(H[h], j2, lu, v); disarm(); J_int("rval", rv); ev_end(H[h]); mpq_clear(v); }
		else if (!strcmp(c, "change_bounds")) { int h = nxh(), num = nxi(), rv, k; int *l = malloc((num > 0 ? num : 1) * sizeof(int)); char *s = malloc((num > 0 ? num : 1) + 1); mpq_t *v = qalloc(num > 0 ? num : 0); for (k = 0; k < num; k++) { l[k] = nxi(); s[k] = (char)sensech(nx()); nxq(v[k]); }
			ev_begin(c); J_hname("h", h); J_int("num", num); J_iarr("list", l, num > 0 ? num : 0); J_chars("lu", s, num > 0 ? num : 0); J_qarr("vals", v, num > 0 ? num : 0); arm(); rv = mpq_QSchange_bounds(H[h], num, l, s, v); disarm(); J_int("rval", rv); ev_end(H[h]); free(l); free(s); qfree(v, num > 0 ? num : 0); }
		else if (!strcmp(c, "change_objsense")) { int h = nxh(), rv; char *s = nx(); int os = !strcmp(s, "min") ? QS_MIN : !strcmp(s, "max") ? QS_MAX : atoi(s); ev_begin(c); J_hname("h", h); J_int("objsense", os); arm(); rv = mpq_QSchange_objsense(H[h], os); disarm(); J_int("rval", rv); ev_end(H[h]); }
		else if (!strcmp(c, "set_param")) { int h = nxh(), w = nxi(), v = nxi(), rv; ev_begin(c); J_hname("h", h); J_int("which", w); J_int("val", v); arm(); rv = mpq_QSset_param(H[h], w, v); disarm(); J_int("rval", rv); ev_end(H[h]); }
		else if (!strcmp(c, "set_param_q")) { int h = nxh(), w = nxi(), rv; mpq_t v; mpq_init(v); nxq(v); ev_begin(c); J_hname("h", h); J_int("which", w); J_q("val", v); arm(); rv = mpq_QSset_param_EGlpNum(H[h], w, v); disarm(); J_int("rval", rv); ev_end(H[h]); mpq_clear(v); }
		else if (!strcmp(c, "get_param")) { int h = nxh(), w = nxi(), v = -12345, rv; ev_begin(c); J_hname("h", h); J_int("which", w); arm(); rv = mpq_QSget_param(H[h], w, &v); disarm(); J_int("rval", rv); J_int("val", v); ev_end(H[h]); }
		else if (!strcmp(c, "dump")) { int h = nxh(); do_dump(h, "dump"); }
		else if (!strcmp(c, "get_coef")) { int h = nxh(), i2 = nxi(), j2 = nxi(), rv; mpq_t v; mpq_init(v); ev_begin(c); J_hname("h", h); J_int("i", i2); J_int("j", j2); arm(); rv = mpq_QSget_coef(H[h], i2, j2, &v); disarm(); J_int("rval", rv); if (!rv) J_q("v", v); ev_end(H[h]); mpq_clear(v); }
		else if (!strcmp(c, "get_bound")) { int h = nxh(), j2 = nxi(), lu = sensech(nx()), rv; mpq_t v; mpq_init(v); ev_begin(c); J_hname("h", h); J_int("j", j2); { char t[2] = {(char)lu, 0}; if (lu >= 32 && lu < 127) J_str("lu", t); else J_str("lu", "?"); } arm(); rv = mpq_QSget_bound(H[h], j2, lu, &v); disarm(); J_int("rval", rv); if (!rv) J_q("v", v); ev_end(H[h]); mpq_clear(v); }
		else if (!strcmp(c, "get_row_index") || !strcmp(c, "get_column_index")) { int col = c[4] == 'c'; int h = nxh(), idx = -12345, rv; const char *nm = nxname(); ev_begin(c); J_hname("h", h); J_str("name", nm); arm(); rv = col ? mpq_QSget_column_index(H[h], nm, &idx) : mpq_QSget_row_index(H[h], nm, &idx); disarm(); J_int("rval", rv); J_int("idx", idx); ev_end(H[h]); }
		else if (!strcmp(c, "get_obj_list") || !strcmp(c, "get_bounds_list")) { int bnd = c[4] == 'b'; int h = nxh(), num = nxi(), rv, k; int *l = malloc((num > 0 ? num : 1) * sizeof(int)); mpq_t *a = qalloc(num > 0 ? num : 0), *b = qalloc(num > 0 ? num : 0); for (k = 0; k < num; k++) l[k] = nxi();
			ev_begin(c); J_hname("h", h); J_int("num", num); J_iarr("list", l, num > 0 ? num : 0); arm(); rv = bnd ? mpq_QSget_bounds_list(H[h], num, l, a, b) : mpq_QSget_obj_list(H[h], num, l, a); disarm(); J_int("rval", rv);
			if (!rv) { J_qarr("a", a, num > 0 ? num : 0); if (bnd) J_qarr("b", b, num > 0 ? num : 0); } ev_end(H[h]); free(l); qfree(a, num > 0 ? num : 0); qfree(b, num > 0 ? num : 0); }
		else if (!strcmp(c, "get_rows_list") || !strcmp(c, "get_ranged_rows_list") || !strcmp(c, "get_columns_list")) {
			int kind = c[4] == 'c' ? 2 : c[5] == 'a' ? 1 : 0; int h = nxh(), num = nxi(), rv, k; int *l = malloc((num > 0 ? num : 1) * sizeof(int));
			int *cnt = 0, *beg = 0, *ind = 0; mpq_t *val = 0, *a1 = 0, *a2 = 0, *a3 = 0; char *sense = 0; char **names = 0;
			for (k = 0; k < num; k++) l[k] = nxi();
			ev_begin(c); J_hname("h", h); J_int("num", num); J_iarr("list", l, num > 0 ? num : 0); arm();
			if (kind == 0) rv = mpq_QSget_rows_list(H[h], num, l, &cnt, &beg, &ind, &val, &a1, &sense, &names);
			else if (kind == 1) rv = mpq_QSget_ranged_rows_list(H[h], num, l, &cnt, &beg, &ind, &val, &a1, &sense, &a2, &names);
			else rv = mpq_QSget_columns_list(H[h], num, l, &cnt, &beg, &ind, &val, &a1, &a2, &a3, &names);
			disarm(); J_int("rval", rv);
			if (!rv && num > 0) { jkey("vecs"); jraw("["); for (k = 0; k < num; k++) { if (k) jraw(","); jsparse(cnt[k], ind + beg[k], val + beg[k]); } jraw("]");
				if (kind == 2) { J_qarr("obj", a1, num); J_qarr("lo", a2, num); J_qarr("up", a3, num); } else { J_qarr("rhs", a1, num); J_chars("sense", sense, num); if (kind == 1 && a2) J_qarr("range", a2, num); }
				if (names) J_sarr("names", names, num); }
			ev_end(H[h]);
			if (cnt) mpq_QSfree(cnt); if (beg) mpq_QSfree(beg); if (ind) mpq_QSfree(ind); if (val) mpq_EGlpNumFreeArray(val); if (a1) mpq_EGlpNumFreeArray(a1); if (a2) mpq_EGlpNumFreeArray(a2); if (a3) mpq_EGlpNumFreeArray(a3);
			if (sense) mpq_QSfree(sense); if (!rv) freestrs(names, num); free(l); }
		else if (!strcmp(c, "opt_primal") || !strcmp(c, "opt_dual")) { int h = nxh(), st = -1, rv; ev_begin(c); J_hname("h", h); arm(); rv = c[4] == 'p' ? mpq_QSopt_primal(H[h], &st) : mpq_QSopt_dual(H[h], &st); disarm(); J_int("rval", rv); J_int("status", st);
			{ itcnt_t *it = &H[h]->itcnt; J_int("it_p1", it->pI_iter); J_int("it_p2", it->pII_iter); J_int("it_d1", it->dI_iter); J_int("it_d2", it->dII_iter); }
			ev_end(H[h]); }
		else if (!strcmp(c, "exact")) { int h = nxh(); char *a = nx(); int algo = !strcmp(a, "primal") ? PRIMAL_SIMPLEX : !strcmp(a, "dual") ? DUAL_SIMPLEX : atoi(a); char *bs = nx(); int b = bs[0] == '-' ? -1 : atoi(bs + 1); int wantxy = nxi();
			int st = -1, rv, m = mpq_QSget_rowcount(H[h]), n = mpq_QSget_colcount(H[h]); mpq_t *x = wantxy ? qalloc(n + m) : NULL, *y = wantxy ? qalloc(m) : NULL;
			ev_begin(c); J_hname("h", h); J_str("algo", a); J_bname("b", b); J_int("wantxy", wantxy);
			if (b >= 0 && !B[b]) { B[b] = calloc(1, sizeof(QSbasis)); }
			if (b >= 0) { jkey("bin"); jraw("{"); jfirst = 1; J_qsbasis("cstat", "rstat", B[b]); jraw("}"); jfirst = 0; }
			nhk = 0; hk_over = 0;
			arm(); rv = QSexact_solver(H[h], x, y, b >= 0 ? B[b] : NULL, algo, &st); disarm(); J_int("rval", rv); J_int("status", st); J_hooks();
			if (wantxy) { J_qarr("x", x, n + m); J_qarr("y", y, m); }
			if (b >= 0) { jkey("bout"); jraw("{"); jfirst = 1; J_qsbasis("cstat", "rstat", B[b]); jraw("}"); jfirst = 0; }
			ev_end(H[h]); if (x) qfree(x, n + m); if (y) qfree(y, m); }
		else if (!strcmp(c, "sol")) { int h = nxh(); do_sol(h); }
		else if (!strcmp(c, "mkbasis")) { char *bs = nx(); int b = atoi(bs + 1); char *cs = nx(), *rs = nx(); ev_begin(c); J_bname("b", b); arm(); if (B[b]) mpq_QSfree_basis(B[b]); B[b] = mkbasis(cs, rs); disarm(); jkey("bas"); jraw("{"); jfirst = 1; J_qsbasis("cstat", "rstat", B[b]); jraw("}"); jfirst = 0; ev_end(NULL); }
		else if (!strcmp(c, "get_basis")) { int h = nxh(); char *bs = nx(); int b = atoi(bs + 1); ev_begin(c); J_hname("h", h); J_bname("b", b); arm(); if (B[b]) mpq_QSfree_basis(B[b]); B[b] = mpq_QSget_basis(H[h]); disarm(); J_int("ok", B[b] ? 1 : 0);
			if (B[b]) { jkey("bas"); jraw("{"); jfirst = 1; J_qsbasis("cstat", "rstat", B[b]); jraw("}"); jfirst = 0; } ev_end(H[h]); }
		else if (!strcmp(c, "get_basis_array")) { int h = nxh(); ev_begin(c); J_hname("h", h); arm(); J_basisarrays(H[h]); disarm(); ev_end(H[h]); }
		else if (!strcmp(c, "load_basis")) { int h = nxh(); char *bs = nx(); int b = atoi(bs + 1), rv; ev_begin(c); J_hname("h", h); J_bname("b", b); if (B[b]) { jkey("bas"); jraw("{"); jfirst = 1; J_qsbasis("cstat", "rstat", B[b]); jraw("}"); jfirst = 0; } arm(); rv = mpq_QSload_basis(H[h], B[b]); disarm(); J_int("rval", rv); ev_end(H[h]); }
		else if (!strcmp(c, "load_basis_array")) { int h = nxh(), rv; char *cs = nx(), *rs = nx(); ev_begin(c); J_hname("h", h); J_chars("cstat", cs[0] == '-' ? "" : cs, cs[0] == '-' ? 0 : (int)strlen(cs)); J_chars("rstat", rs[0] == '-' ? "" : rs, rs[0] == '-' ? 0 : (int)strlen(rs)); arm();
			rv = mpq_QSload_basis_array(H[h], cs[0] == '-' ? NULL : cs, rs[0] == '-' ? NULL : rs); disarm(); J_int("rval", rv); ev_end(H[h]); }
		else if (!strcmp(c, "free_basis")) { char *bs = nx(); int b = atoi(bs + 1); ev_begin(c); J_bname("b", b); arm(); if (B[b]) mpq_QSfree_basis(B[b]); B[b] = NULL; disarm(); ev_end(NULL); }
		else if (!strcmp(c, "write_basis")) { int h = nxh(); char *bs = nx(); int b = bs[0] == '-' ? -1 : atoi(bs + 1), rv; char *fn = nx(); ev_begin(c); J_hname("h", h); J_bname("b", b); J_str("file", fn);
			if (b >= 0 && B[b]) { jkey("bas"); jraw("{"); jfirst = 1; J_qsbasis("cstat", "rstat", B[b]); jraw("}"); jfirst = 0; }
			arm(); rv = mpq_QSwrite_basis(H[h], b >= 0 ? B[b] : NULL, fn); disarm(); J_int("rval", rv); ev_end(H[h]); }
		else if (!strcmp(c, "read_basis")) { int h = nxh(); char *bs = nx(); int b = atoi(bs + 1); char *fn = nx(); ev_begin(c); J_hname("h", h); J_bname("b", b); J_str("file", fn); arm(); if (B[b]) mpq_QSfree_basis(B[b]); B[b] = mpq_QSread_basis(H[h], fn); disarm(); J_int("ok", B[b] ? 1 : 0);
			if (B[b]) { jkey("bas"); jraw("{"); jfirst = 1; J_qsbasis("cstat", "rstat", B[b]); jraw("}"); jfirst = 0; } ev_end(H[h]); }
		else if (!strcmp(c, "read_and_load_basis")) { int h = nxh(), rv; char *fn = nx(); ev_begin(c); J_hname("h", h); J_str("file", fn); arm(); rv = mpq_QSread_and_load_basis(H[h], fn); disarm(); J_int("rval", rv); if (H[h] && H[h]->basis) J_basisarrays(H[h]); ev_end(H[h]); }
		else if (!strcmp(c, "basis_optimalstatus") || !strcmp(c, "basis_dualstatus") || !strcmp(c, "verify")) { int h = nxh(); char *bs = nx(); int b = atoi(bs + 1), rv, pre = 0; char result = 9; mpq_t dv; mpq_init(dv);
			if (c[0] == 'v') pre = nxi();
			ev_begin(c); J_hname("h", h); J_bname("b", b); if (B[b]) { jkey("bas"); jraw("{"); jfirst = 1; J_qsbasis("cstat", "rstat", B[b]); jraw("}"); jfirst = 0; } arm();
			if (c[6] == 'o') rv = QSexact_basis_optimalstatus(H[h], B[b], &result, 0);
			else if (c[6] == 'd') rv = QSexact_basis_dualstatus(H[h], B[b], &result, &dv, 0);
			else { J_int("pre", pre); rv = QSexact_verify(H[h], B[b], pre, NULL, NULL, &result, &dv, 0); }
			disarm(); J_int("rval", rv); J_int("result", result); if (c[6] != 'o') J_q("dobjval", dv); ev_end(H[h]); mpq_clear(dv); }
		else if (!strcmp(c, "binv")) { int h = nxh(); mpq_QSprob p = H[h]; int m = mpq_QSget_rowcount(p), n = mpq_QSget_colcount(p), rv, k; int *ord = malloc((m + 1) * sizeof(int)); mpq_t *row = qalloc(m), *trow = qalloc(n + m);
			ev_begin(c); J_hname("h", h); arm(); rv = mpq_QSget_basis_order(p, ord); J_int("rv_order", rv); if (!rv) J_iarr("order", ord, m);
			if (!rv) { int bad = 0; jkey("binv"); jraw("["); for (k = 0; k < m; k++) { int r2 = mpq_QSget_binv_row(p, k, row); if (r2) bad++; if (k) jraw(","); { int q; jraw("["); for (q = 0; q < m; q++) { if (q) jraw(","); jqv(row[q]); } jraw("]"); } } jraw("]"); J_int("binv_fail", bad);
			  bad = 0; jkey("tab"); jraw("["); for (k = 0; k < m; k++) { int r2 = mpq_QSget_tableau_row(p, k, trow); if (r2) bad++; if (k) jraw(","); { int q; jraw("["); for (q = 0; q < n + m; q++) { if (q) jraw(","); jqv(trow[q]); } jraw("]"); } } jraw("]"); J_int("tab_fail", bad);
			  if (p->basis) J_basisarrays(p); }
			disarm(); ev_end(p); free(ord); qfree(row, m); qfree(trow, n + m); }
		else if (!strcmp(c, "binv_row") || !strcmp(c, "tableau_row")) { int h = nxh(), k = nxi(), rv; mpq_QSprob p = H[h]; int m = mpq_QSget_rowcount(p), n = mpq_QSget_colcount(p); mpq_t *row = qalloc(n + m + 1);
			ev_begin(c); J_hname("h", h); J_int("i", k); arm(); rv = c[0] == 'b' ? mpq_QSget_binv_row(p, k, row) : mpq_QSget_tableau_row(p, k, row); disarm(); J_int("rval", rv); ev_end(p); qfree(row, n + m + 1); }
		else if (!strcmp(c, "basis_order")) { int h = nxh(), rv; mpq_QSprob p = H[h]; int m = mpq_QSget_rowcount(p); int *ord = malloc((m + 1) * sizeof(int)); ev_begin(c); J_hname("h", h); arm(); rv = mpq_QSget_basis_order(p, ord); disarm(); J_int("rval", rv); if (!rv) J_iarr("order", ord, m); ev_end(p); free(ord); }
		else if (!strcmp(c, "pivotin_row") || !strcmp(c, "pivotin_col")) { int h = nxh(), num = nxi(), rv, k; int *l = malloc((num > 0 ? num : 1) * sizeof(int)); for (k = 0; k < num; k++) l[k] = nxi(); ev_begin(c); J_hname("h", h); J_iarr("list", l, num > 0 ? num : 0); arm(); rv = c[8] == 'r' ? mpq_QSopt_pivotin_row(H[h], num, l) : mpq_QSopt_pivotin_col(H[h], num, l); disarm(); J_int("rval", rv); if (H[h]->basis) J_basisarrays(H[h]); ev_end(H[h]); free(l); }
		else if (!strcmp(c, "compute_row_norms")) { int h = nxh(), rv; ev_begin(c); J_hname("h", h); arm(); rv = mpq_QScompute_row_norms(H[h]); disarm(); J_int("rval", rv); ev_end(H[h]); }
		else if (!strcmp(c, "write_prob")) { int h = nxh(), rv; char *fn = nx(); char *ty = nx(); ev_begin(c); J_hname("h", h); J_str("file", fn); J_str("type", ty); { char *on = H[h] ? mpq_QSget_objname(H[h]) : NULL; J_str("objname", on ? on : "obj"); if (on) mpq_QSfree(on); } arm(); rv = mpq_QSwrite_prob(H[h], fn, ty); disarm(); J_int("rval", rv); ev_end(H[h]); }
		else if (!strcmp(c, "read_prob")) { int h = nxh(); char *fn = nx(); char *ty = nx(); ev_begin(c); J_hname("h", h); J_str("file", fn); J_str("type", ty); arm(); H[h] = mpq_QSread_prob(fn, ty); disarm(); J_int("ok", H[h] ? 1 : 0); ev_end(H[h]); }
		else if (!strcmp(c, "get_infeas")) { int h = nxh(), rv; int m = mpq_QSget_rowcount(H[h]); mpq_t *y = qalloc(m); ev_begin(c); J_hname("h", h); arm(); rv = mpq_QSget_infeas_array(H[h], y); disarm(); J_int("rval", rv); if (!rv) J_qarr("y", y, m); ev_end(H[h]); qfree(y, m); }
		else if (!strcmp(c, "copy_conv")) { /* reduced precision copies, dumped as exact rationals */
			int h = nxh(); char *ty = nx(); mpq_QSprob p = H[h]; int m = mpq_QSget_rowcount(p), n = mpq_QSget_colcount(p), k; mpq_t q; mpq_init(q);
			ev_begin(c); J_hname("h", h); J_str("type", ty); arm();
			if (!strcmp(ty, "dbl")) { dbl_QSdata *d = QScopy_prob_mpq_dbl(p, "cp"); J_int("ok", d ? 1 : 0);
				if (d) { int dm = dbl_QSget_rowcount(d), dn = dbl_QSget_colcount(d), os = 0; double *a = malloc((dn + dm + 1) * sizeof(double)), *b = malloc((dn + dm + 1) * sizeof(double)); char *s = malloc(dm + 1);
				  J_int("nrows", dm); J_int("ncols", dn); dbl_QSget_objsense(d, &os); J_int("objsense", os);
#define DARR(key, arr, cnt) do { jkey(key); jraw("["); for (k = 0; k < (cnt); k++) { if (k) jraw(","); if ((arr)[k] >= dbl_ILL_MAXDOUBLE) jraw("\"inf\""); else if ((arr)[k] <= dbl_ILL_MINDOUBLE) jraw("\"-inf\""); else { mpq_set_d(q, (arr)[k]); jqv(q); } } jraw("]"); } while (0)
				  dbl_QSget_obj(d, a); DARR("obj", a, dn); dbl_QSget_bounds(d, a, b); DARR("lo", a, dn); DARR("up", b, dn); dbl_QSget_rhs(d, a); DARR("rhs", a, dm); dbl_QSget_senses(d, s); J_chars("sense", s, dm);
				  { int *rc = 0, *rb = 0, *ri = 0; double *rvv = 0, *rh = 0, *rg = 0; char *se = 0; char **nm = 0; int r2 = dbl_QSget_ranged_rows(d, &rc, &rb, &ri, &rvv, &rh, &se, &rg, &nm); J_int("rv_rows", r2);
				    if (!r2) { int i2; jkey("rows"); jraw("["); for (i2 = 0; i2 < dm; i2++) { int t; if (i2) jraw(","); jraw("["); for (t = 0; t < rc[i2]; t++) { if (t) jraw(","); jraw("{\"j\":"); jintv(ri[rb[i2] + t]); jraw(",\"v\":"); mpq_set_d(q, rvv[rb[i2] + t]); jqv(q); jraw("}"); } jraw("]"); } jraw("]"); if (rg) DARR("range", rg, dm); }
				    if (rc) dbl_QSfree(rc); if (rb) dbl_QSfree(rb); if (ri) dbl_QSfree(ri); if (rvv) dbl_EGlpNumFreeArray(rvv); if (rh) dbl_EGlpNumFreeArray(rh); if (rg) dbl_EGlpNumFreeArray(rg); if (se) dbl_QSfree(se); if (nm) { int i2; for (i2 = 0; i2 < dm; i2++) if (nm[i2]) dbl_QSfree(nm[i2]); dbl_QSfree(nm); } }
				  { int v = -1; jkey("par"); jraw("{"); jfirst = 1; dbl_QSget_param(d, QS_PARAM_PRIMAL_PRICING, &v); J_int("ppricing", v); dbl_QSget_param(d, QS_PARAM_DUAL_PRICING, &v); J_int("dpricing", v); dbl_QSget_param(d, QS_PARAM_SIMPLEX_DISPLAY, &v); J_int("display", v); dbl_QSget_param(d, QS_PARAM_SIMPLEX_MAX_ITERATIONS, &v); J_int("maxiter", v); dbl_QSget_param(d, QS_PARAM_SIMPLEX_SCALING, &v); J_int("scaling", v); jraw("}"); jfirst = 0; }
				  free(a); free(b); free(s); dbl_QSfree_prob(d); } }
			else { mpf_QSdata *d = QScopy_prob_mpq_mpf(p, "cp"); J_int("ok", d ? 1 : 0); J_int("prec", (long)(EGLPNUM_PRECISION > 100000 ? 100000 : EGLPNUM_PRECISION));
				if (d) { int dm = mpf_QSget_rowcount(d), dn = mpf_QSget_colcount(d), os = 0; mpf_t *a = mpf_EGlpNumAllocArray(dn + dm + 1), *b = mpf_EGlpNumAllocArray(dn + dm + 1); char *s = malloc(dm + 1);
				  J_int("nrows", dm); J_int("ncols", dn); mpf_QSget_objsense(d, &os); J_int("objsense", os);
#define FARR(key, arr, cnt) do { jkey(key); jraw("["); for (k = 0; k < (cnt); k++) { if (k) jraw(","); if (mpf_cmp((arr)[k], mpf_ILL_MAXDOUBLE) >= 0) jraw("\"inf\""); else if (mpf_cmp((arr)[k], mpf_ILL_MINDOUBLE) <= 0) jraw("\"-inf\""); else { mpq_set_f(q, (arr)[k]); jqv(q); } } jraw("]"); } while (0)
				  mpf_QSget_obj(d, a); FARR("obj", a, dn); mpf_QSget_bounds(d, a, b); FARR("lo", a, dn); FARR("up", b, dn); mpf_QSget_rhs(d, a); FARR("rhs", a, dm); mpf_QSget_senses(d, s); J_chars("sense", s, dm);
				  { int *rc = 0, *rb = 0, *ri = 0; mpf_t *rvv = 0, *rh = 0, *rg = 0; char *se = 0; char **nm = 0; int r2 = mpf_QSget_ranged_rows(d, &rc, &rb, &ri, &rvv, &rh, &se, &rg, &nm); J_int("rv_rows", r2);
				    if (!r2) { int i2; jkey("rows"); jraw("["); for (i2 = 0; i2 < dm; i2++) { int t; if (i2) jraw(","); jraw("["); for (t = 0; t < rc[i2]; t++) { if (t) jraw(","); jraw("{\"j\":"); jintv(ri[rb[i2] + t]); jraw(",\"v\":"); mpq_set_f(q, rvv[rb[i2] + t]); jqv(q); jraw("}"); } jraw("]"); } jraw("]"); if (rg) FARR("range", rg, dm); }
				    if (rc) mpf_QSfree(rc); if (rb) mpf_QSfree(rb); if (ri) mpf_QSfree(ri); if (rvv) mpf_EGlpNumFreeArray(rvv); if (rh) mpf_EGlpNumFreeArray(rh); if (rg) mpf_EGlpNumFreeArray(rg); if (se) mpf_QSfree(se); if (nm) { int i2; for (i2 = 0; i2 < dm; i2++) if (nm[i2]) mpf_QSfree(nm[i2]); mpf_QSfree(nm); } }
				  { int v = -1; jkey("par"); jraw("{"); jfirst = 1; mpf_QSget_param(d, QS_PARAM_PRIMAL_PRICING, &v); J_int("ppricing", v); mpf_QSget_param(d, QS_PARAM_DUAL_PRICING, &v); J_int("dpricing", v); mpf_QSget_param(d, QS_PARAM_SIMPLEX_DISPLAY, &v); J_int("display", v); mpf_QSget_param(d, QS_PARAM_SIMPLEX_MAX_ITERATIONS, &v); J_int("maxiter", v); mpf_QSget_param(d, QS_PARAM_SIMPLEX_SCALING, &v); J_int("scaling", v); jraw("}"); jfirst = 0; }
				  mpf_EGlpNumFreeArray(a); mpf_EGlpNumFreeArray(b); free(s); mpf_QSfree_prob(d); } }
			disarm(); ev_end(p); mpq_clear(q); }
		else if (!strcmp(c, "readnum")) { /* the numeric literal scanner: readnum <hex-encoded string> */
			char *hx = nx(); int L = (int)strlen(hx) / 2, k, used; char *s = malloc(L + 1); mpq_t q; mpq_init(q);
			for (k = 0; k < L; k++) { unsigned v; sscanf(hx + 2 * k, "%2x", &v); s[k] = (char)v; } s[L] = 0;
			ev_begin(c); J_str("s", s); J_chars("chars", s, L); mpq_set_si(q, 424242, 1); arm(); used = mpq_EGlpNumReadStrXc(q, s); disarm(); J_int("used", used); J_q("v", q); ev_end(NULL); mpq_clear(q); free(s); }
		else if (!strcmp(c, "restart")) { int k; ev_begin(c); arm();     /* end the library session and start a new one: the host's handler stays registered */
			for (k = 0; k < MAXH; k++) { if (H[k]) mpq_QSfree_prob(H[k]); H[k] = NULL; if (B[k]) mpq_QSfree_basis(B[k]); B[k] = NULL; }
			QSexactClear(); QSexactStart(); disarm(); ev_end(NULL); }
		else if (!strcmp(c, "sleep")) { int ms = nxi(); ev_begin(c); J_int("ms", ms); arm(); usleep((useconds_t)ms * 1000); disarm(); ev_end(NULL); }   /* self-test of the watchdog */
		else if (!strcmp(c, "shutdown")) { int k, leak = -1; ev_begin(c); arm();
			for (k = 0; k < MAXH; k++) { if (H[k]) mpq_QSfree_prob(H[k]); H[k] = NULL; if (B[k]) mpq_QSfree_basis(B[k]); B[k] = NULL; }
			QSexactClear();
#ifdef VERIF_ASAN
			{ /* hide our own buffers from the leak check: they are still referenced by globals */ leak = __lsan_do_recoverable_leak_check(); }
#endif
			disarm(); J_int("leak", leak); ev_end(NULL); fclose(tr); _exit(0); }
		else { die("unknown command"); }
	}
	fclose(tr);
	_exit(0);
}
