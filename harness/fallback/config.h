/* config.h.  Generated from config.h.in by configure.  */
/* config.h.in.  Generated from configure.ac by autoheader.  */

/* Disable debug mode */
#define DEBUG 1

/* Define to 1 if you have the `clock' function. */
#define HAVE_CLOCK 1

/* Define to 1 if you have the <dlfcn.h> header file. */
#define HAVE_DLFCN_H 1

/* Define to 1 if you don't have `vprintf' but do have `_doprnt.' */
/* #undef HAVE_DOPRNT */

/* Define to 1 if you have the <errno.h> header file. */
#define HAVE_ERRNO_H 1

/* Define to 1 if you have the <float.h> header file. */
#define HAVE_FLOAT_H 1

/* Define to 1 if you have the `floor' function. */
#define HAVE_FLOOR 1

/* Define to 1 if you have the <getopt.h> header file. */
#define HAVE_GETOPT_H 1

/* Define to 1 if you have the `getrusage' function. */
#define HAVE_GETRUSAGE 1

/* Define to 1 if you have the <inttypes.h> header file. */
#define HAVE_INTTYPES_H 1

/* Define to 1 if you have the `bz2' library (-lbz2). */
#define HAVE_LIBBZ2 1

/* Define to 1 if you have the `pthread' library (-lpthread). */
#define HAVE_LIBPTHREAD 1

/* Define to 1 if you have the `z' library (-lz). */
#define HAVE_LIBZ 1

/* Define to 1 if you have the <limits.h> header file. */
#define HAVE_LIMITS_H 1

/* Define to 1 if your system has a GNU libc compatible `malloc' function, and
   to 0 otherwise. */
#define HAVE_MALLOC 1

/* Define to 1 if you have the <math.h> header file. */
#define HAVE_MATH_H 1

/* Define to 1 if you have the `memset' function. */
#define HAVE_MEMSET 1

/* Define to 1 if you have the <minix/config.h> header file. */
/* #undef HAVE_MINIX_CONFIG_H */

/* Define to 1 if you have the `posix_memalign' function. */
#define HAVE_POSIX_MEMALIGN 1

/* Define to 1 if you have the `pow' function. */
#define HAVE_POW 1

/* Define to 1 if your system has a GNU libc compatible `realloc' function,
   and to 0 otherwise. */
#define HAVE_REALLOC 1

/* Define to 1 if you have the <setjmp.h> header file. */
#define HAVE_SETJMP_H 1

/* Define to 1 if you have the `sigaction' function. */
#define HAVE_SIGACTION 1

/* Define to 1 if you have the `signal' function. */
#define HAVE_SIGNAL 1

/* Define to 1 if you have the <signal.h> header file. */
#define HAVE_SIGNAL_H 1

/* Define to 1 if you have the `sleep' function. */
#define HAVE_SLEEP 1

/* Define to 1 if you have the `sqrt' function. */
#define HAVE_SQRT 1

/* Define to 1 if you have the <stdarg.h> header file. */
#define HAVE_STDARG_H 1

/* Define to 1 if you have the <stdint.h> header file. */
#define HAVE_STDINT_H 1

/* Define to 1 if you have the <stdio.h> header file. */
#define HAVE_STDIO_H 1

/* Define to 1 if you have the <stdlib.h> header file. */
#define HAVE_STDLIB_H 1

/* Define to 1 if you have the `strdup' function. */
#define HAVE_STRDUP 1

/* Define to 1 if you have the `strerror' function. */
#define HAVE_STRERROR 1

/* Define to 1 if you have the <strings.h> header file. */
#define HAVE_STRINGS_H 1

/* Define to 1 if you have the <string.h> header file. */
#define HAVE_STRING_H 1

/* Define to 1 if you have the <sys/param.h> header file. */
#define HAVE_SYS_PARAM_H 1

/* Define to 1 if you have the <sys/resource.h> header file. */
#define HAVE_SYS_RESOURCE_H 1

/* Define to 1 if you have the <sys/stat.h> header file. */
#define HAVE_SYS_STAT_H 1

/* Define to 1 if you have the <sys/times.h> header file. */
#define HAVE_SYS_TIMES_H 1

/* Define to 1 if you have the <sys/time.h> header file. */
#define HAVE_SYS_TIME_H 1

/* Define to 1 if you have the <sys/types.h> header file. */
#define HAVE_SYS_TYPES_H 1

/* Define to 1 if you have the <sys/utsname.h> header file. */
#define HAVE_SYS_UTSNAME_H 1

/* Define to 1 if you have the `times' function. */
#define HAVE_TIMES 1

/* Define to 1 if typeof works with your compiler. */
#define HAVE_TYPEOF 1

/* Define to 1 if you have the `uname' function. */
#define HAVE_UNAME 1

/* Define to 1 if you have the <unistd.h> header file. */
#define HAVE_UNISTD_H 1

/* Define to 1 if you have the `vprintf' function. */
#define HAVE_VPRINTF 1

/* Define to 1 if you have the <wchar.h> header file. */
#define HAVE_WCHAR_H 1

/* Define to the sub-directory where libtool stores uninstalled libraries. */
#define LT_OBJDIR ".libs/"

/* Name of package */
#define PACKAGE "qsopt_ex"

/* Define to the address where bug reports for this package should be sent. */
#define PACKAGE_BUGREPORT "https://github.com/jonls/qsopt-ex/issues"

/* Define to the full name of this package. */
#define PACKAGE_NAME "QSopt_ex"

/* Define to the full name and version of this package. */
#define PACKAGE_STRING "QSopt_ex 2.5.10.3"

/* Define to the one symbol short name of this package. */
#define PACKAGE_TARNAME "qsopt_ex"

/* Define to the home page for this package. */
#define PACKAGE_URL ""

/* Define to the version of this package. */
#define PACKAGE_VERSION "2.5.10.3"

/* Define as the return type of signal handlers (`int' or `void'). */
#define RETSIGTYPE void

/* Define to 1 if all of the C90 standard headers exist (not just the ones
   required in a freestanding environment). This macro is provided for
   backward compatibility; new code need not use it. */
#define STDC_HEADERS 1

/* Define to 1 if you can safely include both <sys/time.h> and <time.h>. This
   macro is obsolete. */
#define TIME_WITH_SYS_TIME 1

/* Enable extensions on AIX 3, Interix.  */
#ifndef _ALL_SOURCE
# define _ALL_SOURCE 1
#endif
/* Enable general extensions on macOS.  */
#ifndef _DARWIN_C_SOURCE
# define _DARWIN_C_SOURCE 1
#endif
/* Enable general extensions on Solaris.  */
#ifndef __EXTENSIONS__
# define __EXTENSIONS__ 1
#endif
/* Enable GNU extensions on systems that have them.  */
#ifndef _GNU_SOURCE
# define _GNU_SOURCE 1
#endif
/* Enable X/Open compliant socket functions that do not require linking
   with -lxnet on HP-UX 11.11.  */
#ifndef _HPUX_ALT_XOPEN_SOCKET_API
# define _HPUX_ALT_XOPEN_SOCKET_API 1
#endif
/* Identify the host operating system as Minix.
   This macro does not affect the system headers' behavior.
   A future release of Autoconf may stop defining this macro.  */
#ifndef _MINIX
/* # undef _MINIX */
#endif
/* Enable general extensions on NetBSD.
   Enable NetBSD compatibility extensions on Minix.  */
#ifndef _NETBSD_SOURCE
# define _NETBSD_SOURCE 1
#endif
/* Enable OpenBSD compatibility extensions on NetBSD.
   Oddly enough, this does nothing on OpenBSD.  */
#ifndef _OPENBSD_SOURCE
# define _OPENBSD_SOURCE 1
#endif
/* Define to 1 if needed for POSIX-compatible behavior.  */
#ifndef _POSIX_SOURCE
/* # undef _POSIX_SOURCE */
#endif
/* Define to 2 if needed for POSIX-compatible behavior.  */
#ifndef _POSIX_1_SOURCE
/* # undef _POSIX_1_SOURCE */
#endif
/* Enable POSIX-compatible threading on Solaris.  */
#ifndef _POSIX_PTHREAD_SEMANTICS
# define _POSIX_PTHREAD_SEMANTICS 1
#endif
/* Enable extensions specified by ISO/IEC TS 18661-5:2014.  */
#ifndef __STDC_WANT_IEC_60559_ATTRIBS_EXT__
# define __STDC_WANT_IEC_60559_ATTRIBS_EXT__ 1
#endif
/* Enable extensions specified by ISO/IEC TS 18661-1:2014.  */
#ifndef __STDC_WANT_IEC_60559_BFP_EXT__
# define __STDC_WANT_IEC_60559_BFP_EXT__ 1
#endif
/* Enable extensions specified by ISO/IEC TS 18661-2:2015.  */
#ifndef __STDC_WANT_IEC_60559_DFP_EXT__
# define __STDC_WANT_IEC_60559_DFP_EXT__ 1
#endif
/* Enable extensions specified by ISO/IEC TS 18661-4:2015.  */
#ifndef __STDC_WANT_IEC_60559_FUNCS_EXT__
# define __STDC_WANT_IEC_60559_FUNCS_EXT__ 1
#endif
/* Enable extensions specified by ISO/IEC TS 18661-3:2015.  */
#ifndef __STDC_WANT_IEC_60559_TYPES_EXT__
# define __STDC_WANT_IEC_60559_TYPES_EXT__ 1
#endif
/* Enable extensions specified by ISO/IEC TR 24731-2:2010.  */
#ifndef __STDC_WANT_LIB_EXT2__
# define __STDC_WANT_LIB_EXT2__ 1
#endif
/* Enable extensions specified by ISO/IEC 24747:2009.  */
#ifndef __STDC_WANT_MATH_SPEC_FUNCS__
# define __STDC_WANT_MATH_SPEC_FUNCS__ 1
#endif
/* Enable extensions on HP NonStop.  */
#ifndef _TANDEM_SOURCE
# define _TANDEM_SOURCE 1
#endif
/* Enable X/Open extensions.  Define to 500 only if necessary
   to make mbstate_t available.  */
#ifndef _XOPEN_SOURCE
/* # undef _XOPEN_SOURCE */
#endif


/* Compilation-time verbose level */
#define VERBOSE_LEVEL 100

/* Version number of package */
#define VERSION "2.5.10.3"

/* Define for Solaris 2.5.1 so the uint32_t typedef from <sys/synch.h>,
   <pthread.h>, or <semaphore.h> is not used. If the typedef were allowed, the
   #define below would cause a syntax error. */
/* #undef _UINT32_T */

/* Define for Solaris 2.5.1 so the uint64_t typedef from <sys/synch.h>,
   <pthread.h>, or <semaphore.h> is not used. If the typedef were allowed, the
   #define below would cause a syntax error. */
/* #undef _UINT64_T */

/* Define for Solaris 2.5.1 so the uint8_t typedef from <sys/synch.h>,
   <pthread.h>, or <semaphore.h> is not used. If the typedef were allowed, the
   #define below would cause a syntax error. */
/* #undef _UINT8_T */

/* Define to empty if `const' does not conform to ANSI C. */
/* #undef const */

/* Define to the type of a signed integer type of width exactly 16 bits if
   such a type exists and the standard includes do not define it. */
/* #undef int16_t */

/* Define to the type of a signed integer type of width exactly 32 bits if
   such a type exists and the standard includes do not define it. */
/* #undef int32_t */

/* Define to the type of a signed integer type of width exactly 64 bits if
   such a type exists and the standard includes do not define it. */
/* #undef int64_t */

/* Define to the type of a signed integer type of width exactly 8 bits if such
   a type exists and the standard includes do not define it. */
/* #undef int8_t */

/* Define to rpl_malloc if the replacement function should be used. */
/* #undef malloc */

/* Define to rpl_realloc if the replacement function should be used. */
/* #undef realloc */

/* Define to `unsigned int' if <sys/types.h> does not define. */
/* #undef size_t */

/* Define to `int' if <sys/types.h> does not define. */
/* #undef ssize_t */

/* Define to __typeof__ if your compiler spells it that way. */
/* #undef typeof */

/* Define to the type of an unsigned integer type of width exactly 16 bits if
   such a type exists and the standard includes do not define it. */
/* #undef uint16_t */

/* Define to the type of an unsigned integer type of width exactly 32 bits if
   such a type exists and the standard includes do not define it. */
/* #undef uint32_t */

/* Define to the type of an unsigned integer type of width exactly 64 bits if
   such a type exists and the standard includes do not define it. */
/* #undef uint64_t */

/* Define to the type of an unsigned integer type of width exactly 8 bits if
   such a type exists and the standard includes do not define it. */
/* #undef uint8_t */
