NAME    prob
 XL v2 r3
 UL v4
ENDATA
