NAME    prob
 XL v1 r4
 XL v2 r5
 UL v4
 UL v5
 UL v6
ENDATA
