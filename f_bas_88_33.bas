NAME    prob
 XU v4 r3
 XL v6 r5
 UL v1
 UL v2
ENDATA
