NAME    prob
 XL v4 r2
 XL v7 r3
 UL v5
 UL v6
ENDATA
