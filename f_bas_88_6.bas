NAME    prob
 XL v5 r4
 UL v4
 UL v6
 UL v7
ENDATA
