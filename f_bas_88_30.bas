NAME    prob
 XL v2 r1
 XL v5 r3
 UL v1
 UL v3
 UL v4
ENDATA
