NAME    prob
 XL v3 r2
 XU v5 r3
 UL v1
 UL v4
 UL v6
 UL v7
ENDATA
