NAME    prob
 XL v2 r1
 XL v3 r2
 XL v6 r3
 XL v7 r4
 UL v1
ENDATA
