NAME    prob
 UL v7
ENDATA
