NAME    prob
 XL v1 r2
 XU v3 r3
 XL v4 r4
 XL v7 r5
 UL v5
ENDATA
