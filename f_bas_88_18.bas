NAME    prob
 XL v2 r1
 XL v3 r2
 XL v4 r3
 XL v6 r4
 UL v1
 UL v5
 UL v7
ENDATA
