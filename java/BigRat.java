import tlc2.overrides.TLAPlusOperator;
import tlc2.value.impl.*;
import java.math.BigInteger;

/** Exact rational arithmetic on canonical strings "p/q" (GMP mpq_get_str form) for TLC.
 *  Bound to the pure TLA+ definition Rat.tla by spec/MC_RatAgree. */
public class BigRat {
    static final class Q { final BigInteger n, d; Q(BigInteger n, BigInteger d) {
        if (d.signum() == 0) throw new ArithmeticException("zero denominator");
        if (d.signum() < 0) { n = n.negate(); d = d.negate(); }
        BigInteger g = n.gcd(d); if (!g.equals(BigInteger.ONE) && g.signum() != 0) { n = n.divide(g); d = d.divide(g); }
        this.n = n; this.d = d; } }
    static Q parse(Value v) {
        String s = ((StringValue) v).val.toString();
        int i = s.indexOf('/');
        if (i < 0) return new Q(new BigInteger(s), BigInteger.ONE);
        return new Q(new BigInteger(s.substring(0, i)), new BigInteger(s.substring(i + 1)));
    }
    static Value str(Q q) {
        return new StringValue(q.d.equals(BigInteger.ONE) ? q.n.toString() : q.n.toString() + "/" + q.d.toString());
    }
    @TLAPlusOperator(identifier = "RAdd", module = "BigRat", warn = false)
    public static Value radd(Value a, Value b) { Q x = parse(a), y = parse(b); return str(new Q(x.n.multiply(y.d).add(y.n.multiply(x.d)), x.d.multiply(y.d))); }
    @TLAPlusOperator(identifier = "RSub", module = "BigRat", warn = false)
    public static Value rsub(Value a, Value b) { Q x = parse(a), y = parse(b); return str(new Q(x.n.multiply(y.d).subtract(y.n.multiply(x.d)), x.d.multiply(y.d))); }
    @TLAPlusOperator(identifier = "RMul", module = "BigRat", warn = false)
    public static Value rmul(Value a, Value b) { Q x = parse(a), y = parse(b); return str(new Q(x.n.multiply(y.n), x.d.multiply(y.d))); }
    @TLAPlusOperator(identifier = "RDiv", module = "BigRat", warn = false)
    public static Value rdiv(Value a, Value b) { Q x = parse(a), y = parse(b); return str(new Q(x.n.multiply(y.d), x.d.multiply(y.n))); }
    @TLAPlusOperator(identifier = "RNeg", module = "BigRat", warn = false)
    public static Value rneg(Value a) { Q x = parse(a); return str(new Q(x.n.negate(), x.d)); }
    @TLAPlusOperator(identifier = "RAbs", module = "BigRat", warn = false)
    public static Value rabs(Value a) { Q x = parse(a); return str(new Q(x.n.abs(), x.d)); }
    @TLAPlusOperator(identifier = "RLeq", module = "BigRat", warn = false)
    public static Value rleq(Value a, Value b) { Q x = parse(a), y = parse(b); return x.n.multiply(y.d).compareTo(y.n.multiply(x.d)) <= 0 ? BoolValue.ValTrue : BoolValue.ValFalse; }
    @TLAPlusOperator(identifier = "RLt", module = "BigRat", warn = false)
    public static Value rlt(Value a, Value b) { Q x = parse(a), y = parse(b); return x.n.multiply(y.d).compareTo(y.n.multiply(x.d)) < 0 ? BoolValue.ValTrue : BoolValue.ValFalse; }
    @TLAPlusOperator(identifier = "RSign", module = "BigRat", warn = false)
    public static Value rsign(Value a) { return IntValue.gen(parse(a).n.signum()); }
    @TLAPlusOperator(identifier = "RCanon", module = "BigRat", warn = false)
    public static Value rcanon(Value a) { return str(parse(a)); }
    /** 2^k for any integer k */
    @TLAPlusOperator(identifier = "RPow2", module = "BigRat", warn = false)
    public static Value rpow2(Value k) { int e = ((IntValue) k).val; return e >= 0 ? str(new Q(BigInteger.ONE.shiftLeft(e), BigInteger.ONE)) : str(new Q(BigInteger.ONE, BigInteger.ONE.shiftLeft(-e))); }
    /** 10^k for any integer k */
    @TLAPlusOperator(identifier = "RPow10", module = "BigRat", warn = false)
    public static Value rpow10(Value k) { int e = ((IntValue) k).val; return e >= 0 ? str(new Q(BigInteger.TEN.pow(e), BigInteger.ONE)) : str(new Q(BigInteger.ONE, BigInteger.TEN.pow(-e))); }
    /** rational from small integers n/d (d # 0) */
    @TLAPlusOperator(identifier = "RFrac", module = "BigRat", warn = false)
    public static Value rfrac(Value n, Value d) { return str(new Q(BigInteger.valueOf(((IntValue) n).val), BigInteger.valueOf(((IntValue) d).val))); }
    /** floor(log2 |a|) for a # 0: the e with 2^e <= |a| < 2^(e+1) */
    @TLAPlusOperator(identifier = "RLog2", module = "BigRat", warn = false)
    public static Value rlog2(Value a) { Q x = parse(a); BigInteger n = x.n.abs(); int e = n.bitLength() - x.d.bitLength();
        // 2^e <= n/d ?
        java.util.function.IntPredicate ge = (k) -> (k >= 0 ? n.compareTo(x.d.shiftLeft(k)) >= 0 : n.shiftLeft(-k).compareTo(x.d) >= 0);
        while (!ge.test(e)) e--; while (ge.test(e + 1)) e++; return IntValue.gen(e); }
    /** true iff the string is a syntactically canonical rational */
    @TLAPlusOperator(identifier = "RIsRat", module = "BigRat", warn = false)
    public static Value risrat(Value a) { try { if (!(a instanceof StringValue)) return BoolValue.ValFalse; Q x = parse(a); return ((StringValue) str(x)).val.equals(((StringValue) a).val) ? BoolValue.ValTrue : BoolValue.ValFalse; } catch (RuntimeException e) { return BoolValue.ValFalse; } }
    @TLAPlusOperator(identifier = "RChars", module = "BigRat", warn = false)
    public static Value rchars(Value a) { String s = ((StringValue) a).val.toString(); Value[] v = new Value[s.length()];
        for (int i = 0; i < v.length; i++) v[i] = new StringValue(s.substring(i, i + 1)); return new TupleValue(v); }
    @TLAPlusOperator(identifier = "RJoin", module = "BigRat", warn = false)
    public static Value rjoin(Value a) { TupleValue t = (TupleValue) a.toTuple(); StringBuilder b = new StringBuilder();
        for (Value v : t.elems) b.append(((StringValue) v).val.toString()); return new StringValue(b.toString()); }
}
