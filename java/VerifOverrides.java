import tlc2.overrides.ITLCOverrides;
public class VerifOverrides implements ITLCOverrides {
    @SuppressWarnings("rawtypes")
    public Class[] get() { return new Class[] { BigRat.class }; }
}
