NAME    prob
 XL v1 r1
 XL v3 r2
 XL v4 r4
 UL v6
ENDATA
