NAME    prob
 XL v2 r1
 XL v3 r2
 XL v5 r5
 UL v1
 UL v4
 UL v6
ENDATA
