---------------------------- MODULE ExactDriver ----------------------------
(***************************************************************************)
(* Control flow of QSexact_solver (exact.c): one floating-point solve in     *)
(* double precision, then up to MaxMpf solves in mpf arithmetic (128 bits,    *)
(* x1.5 per round); after every float solve that claims OPTIMAL/INFEASIBLE   *)
(* the exact test, then the rational basis status and a second exact test.    *)
(*                                                                         *)
(* The machine is a transition function Step(s, e) over the events the       *)
(* guarded hook (QSOPT_EX_VERIF) reports:                                    *)
(*   [e |-> "enter"]                                                        *)
(*   [e |-> "fsolve", a |-> level (0 = double, k = k-th mpf round), b |-> rc] *)
(*   [e |-> "fstatus", a |-> status, b |-> iterations]                        *)
(*   [e |-> "opt_test", a |-> 0/1]   [e |-> "inf_test", a |-> 0/1]            *)
(*   [e |-> "bstatus", a |-> status]                                          *)
(*   [e |-> "return", a |-> status, b |-> rval]                               *)
(* MC_ExactDriver explores it with all events nondeterministic; Trace.tla     *)
(* folds the logged events of every QSexact_solver call through it.           *)
(***************************************************************************)
EXTENDS Integers, Sequences

CONSTANT MaxMpf      \* QS_EXACT_MAX_ITER = 12

OPT == 1  INF == 2  UNB == 3  UNSOLVED == 6  OBJLIM == 9
Statuses == {1, 2, 3, 4, 5, 6, 7, 8, 9}

Reject == [pc |-> "reject"]
Start  == [pc |-> "start", level |-> 0, status |-> 0, certified |-> FALSE]

\* level: the float solve currently being processed (0 double, 1..MaxMpf mpf)
\* status: current value of *status; certified: the last thing that happened was a PASSING exact test for `status`
Continue(s) ==   \* end of the work for this level: next level or ladder exhausted
  [s EXCEPT !.pc = "next", !.certified = FALSE]

Step(s, ev) ==
  LET e == ev.e IN
  CASE s.pc = "start" /\ e = "enter" -> [s EXCEPT !.pc = "next"]
    [] s.pc = "next" /\ e = "fsolve" /\ ev.a = s.level /\ s.level <= MaxMpf ->
         IF ev.b = 0 THEN [s EXCEPT !.pc = "solved", !.level = @ + 1]
         ELSE [s EXCEPT !.pc = "next", !.level = @ + 1]        \* float solve failed: next precision
    [] s.pc = "solved" /\ e = "fstatus" /\ ev.a \in Statuses ->
         CASE ev.a = OPT -> [s EXCEPT !.pc = "opt1", !.status = OPT]
           [] ev.a = INF -> [s EXCEPT !.pc = "inf1", !.status = INF]
           [] ev.a = OBJLIM -> [s EXCEPT !.pc = "objlim", !.status = OBJLIM]
           [] OTHER -> Continue([s EXCEPT !.status = ev.a])
    \* ---- claimed OPTIMAL
    [] s.pc = "opt1" /\ e = "opt_test" -> IF ev.a = 1 THEN [s EXCEPT !.pc = "ret", !.certified = TRUE] ELSE [s EXCEPT !.pc = "opt_bs"]
    [] s.pc = "opt_bs" /\ e = "bstatus" /\ ev.a \in {OPT, INF, UNB, UNSOLVED} ->
         IF ev.a = OPT THEN [s EXCEPT !.pc = "opt2"] ELSE Continue([s EXCEPT !.status = ev.a])
    [] s.pc = "opt2" /\ e = "opt_test" -> IF ev.a = 1 THEN [s EXCEPT !.pc = "ret", !.certified = TRUE] ELSE Continue([s EXCEPT !.status = UNSOLVED])
    \* ---- claimed INFEASIBLE
    [] s.pc = "inf1" /\ e = "inf_test" -> IF ev.a = 1 THEN [s EXCEPT !.pc = "ret", !.certified = TRUE] ELSE [s EXCEPT !.pc = "inf_bs"]
    [] s.pc = "inf1" /\ e = "fsolve" /\ s.level = 1 /\ ev.a = 1 ->        \* double: infeasibility vector unavailable -> first mpf round
         IF ev.b = 0 THEN [s EXCEPT !.pc = "solved", !.level = 2] ELSE [s EXCEPT !.pc = "next", !.level = 2]
    [] s.pc = "inf_bs" /\ e = "bstatus" /\ ev.a \in {OPT, INF, UNB, UNSOLVED} ->
         IF ev.a = INF THEN [s EXCEPT !.pc = "inf2"] ELSE Continue([s EXCEPT !.status = ev.a])
    [] s.pc = "inf2" /\ e = "inf_test" -> IF ev.a = 1 THEN [s EXCEPT !.pc = "ret", !.certified = TRUE] ELSE Continue([s EXCEPT !.status = UNSOLVED])
    \* ---- returns
    [] s.pc = "ret" /\ e = "return" /\ ev.a = s.status /\ ev.b = 0 -> [s EXCEPT !.pc = "done"]
    [] s.pc = "objlim" /\ e = "return" /\ ev.b = 1 -> [s EXCEPT !.pc = "done"]
    \* ladder exhausted: an OPTIMAL/INFEASIBLE that no exact test confirmed is reported as UNSOLVED
    [] s.pc = "next" /\ e = "return" /\ s.level = MaxMpf + 1 /\ ev.b = 0
         /\ ev.a = (IF s.status \in {OPT, INF} THEN UNSOLVED ELSE s.status) -> [s EXCEPT !.pc = "done", !.status = ev.a]
    \* an internal call failed (EGcallD): the driver leaves with a non-zero return value from wherever it is
    [] s.pc \notin {"start", "done"} /\ e = "return" /\ ev.b # 0 -> [s EXCEPT !.pc = "done", !.certified = FALSE]
    [] OTHER -> Reject

RECURSIVE Fold(_, _, _)
Fold(s, evs, k) == IF k > Len(evs) \/ s = Reject THEN [s |-> s, k |-> k] ELSE Fold(Step(s, evs[k]), evs, k + 1)
\* the logged hook events of one call: accepted iff the machine ends in "done"; returns "" or a diagnostic
Run(evs) == Fold(Start, evs, 1)
Accepts(evs) == Run(evs).s # Reject /\ Run(evs).s.pc = "done"
=============================================================================
