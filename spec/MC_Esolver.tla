----------------------------- MODULE MC_Esolver -----------------------------
EXTENDS Esolver, TLC
VARIABLES optL, optb, readable, rv, status
vars == <<optL, optb, readable, rv, status>>
Init == optL \in BOOLEAN /\ optb \in BOOLEAN /\ readable \in BOOLEAN /\ rv \in {0, 1} /\ status \in {"OPTIMAL", "INFEASIBLE", "UNBOUNDED", "UNDEFINED"}
Next == UNCHANGED vars
\* a readable file never produces a non-zero exit because of -b alone (the defect repaired in esolver.c)
BasisOptionHarmless == (readable /\ rv = 0) => ExitCode(readable, rv) = 0
TypeTable == FileType(optL) \in {"LP", "MPS"} /\ Compression(<<"a", ".", "l", "p", ".", "g", "z">>) = "gz" /\ Compression(<<"a", ".", "m", "p", "s">>) = "none"
=============================================================================
