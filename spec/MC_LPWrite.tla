----------------------------- MODULE MC_LPWrite -----------------------------
(***************************************************************************)
(* Design-level decision of C08 on the writer specification: for EVERY small  *)
(* problem of the enumerated families (each problem is one initial state)      *)
(*     LPFile!Denote(LPWrite!Write(L))   reads back as   L                     *)
(* in the sense of RoundTrip.tla.  Two families (constant Family):             *)
(*  "bounds": 2 columns, every combination of objective coefficient            *)
(*            {0,-1,2/3}, lower bound {-inf,-2,0,1}, upper bound               *)
(*            {-1,0,1,5/2,inf} and integrality mark, one row over both;        *)
(*            this is the case analysis of the default-bound rules             *)
(*            (negative upper bound, integer columns, fixed, free, crossed);   *)
(*  "rows":   2 default columns, 2 rows with every combination of              *)
(*            coefficients {-1,0,1,3/2}, sense L/G/E/R, right-hand side        *)
(*            {-1,0,5/2}, range {0, 1, 7/3}, objective {0,1}^2, min/max           *)
(*            (empty rows, ranged rows as two halves, zero objective);         *)
(*  "rowsq":  the same with fewer values (quick tier);                         *)
(*  "names" / "namesq" (fewer names):  column, row and objective names that need repair (leading        *)
(*            digit or '.', characters outside the alphabet, the empty name)   *)
(*            or clash with the names the repair generates (x1, x_1, c0, ...): *)
(*            the repaired names are valid, pairwise distinct, and valid names *)
(*            are never touched (NamesRepaired).                               *)
(***************************************************************************)
EXTENDS Integers, Sequences, FiniteSets, TLC, BigRat
CONSTANT Family
VARIABLES lp, objn
W == INSTANCE LPWrite
LPF == INSTANCE LPFile
RT == INSTANCE RoundTrip
MW == INSTANCE MPSWrite
MPSF == INSTANCE MPSFile

Row(f, n) == SelectSeq([j \in 1..n |-> [j |-> j, v |-> f[j]]], LAMBDA e : e.v # "0")
Cols == [obj : {"0", "-1", "2/3"}, lo : {"-inf", "-2", "0", "1"}, up : {"-1", "0", "1", "5/2", "inf"}, int : {0, 1}]
RowsF == [a : [1..2 -> {"-1", "0", "1", "3/2"}], s : {"L", "G", "E", "R"}, b : {"-1", "0", "5/2"}, r : {"0", "1", "7/3"}]

InitBounds == \E c \in [1..2 -> Cols], mx \in BOOLEAN :
  lp = [m |-> 1, n |-> 2, A |-> <<Row(<<"1", "-3">>, 2)>>, sense |-> <<"L">>, rhs |-> <<"4">>, range |-> <<"0">>, rname |-> <<"r1">>,
        obj |-> [j \in 1..2 |-> c[j].obj], lo |-> [j \in 1..2 |-> c[j].lo], up |-> [j \in 1..2 |-> c[j].up],
        cname |-> <<"x", "y">>, isint |-> [j \in 1..2 |-> c[j].int], max |-> mx]
InitRows == \E r \in [1..2 -> RowsF], c \in [1..2 -> {"0", "1"}], mx \in BOOLEAN :
  /\ (r[1].s # "R" => r[1].r = "1") /\ (r[2].s # "R" => r[2].r = "1")          \* the range only matters on ranged rows
  /\ lp = [m |-> 2, n |-> 2, A |-> [i \in 1..2 |-> Row(r[i].a, 2)], sense |-> [i \in 1..2 |-> r[i].s], rhs |-> [i \in 1..2 |-> r[i].b],
           range |-> [i \in 1..2 |-> IF r[i].s = "R" THEN r[i].r ELSE "0"], rname |-> <<"r1", "r2">>,
           obj |-> c, lo |-> <<"0", "0">>, up |-> <<"inf", "inf">>, cname |-> <<"x", "y">>, isint |-> <<0, 0>>, max |-> mx]
RowsQ == [a : [1..2 -> {"-1", "0", "3/2"}], s : {"L", "G", "E", "R"}, b : {"-1", "5/2"}, r : {"0", "7/3"}]
InitRowsQ == \E r \in [1..2 -> RowsQ], c \in [1..2 -> {"0", "1"}], mx \in BOOLEAN :
  /\ (r[1].s # "R" => r[1].r = "0") /\ (r[2].s # "R" => r[2].r = "0")
  /\ lp = [m |-> 2, n |-> 2, A |-> [i \in 1..2 |-> Row(r[i].a, 2)], sense |-> [i \in 1..2 |-> r[i].s], rhs |-> [i \in 1..2 |-> r[i].b],
        range |-> [i \in 1..2 |-> IF r[i].s = "R" THEN r[i].r ELSE "0"], rname |-> <<"r1", "r2">>,
        obj |-> c, lo |-> <<"0", "0">>, up |-> <<"inf", "inf">>, cname |-> <<"x", "y">>, isint |-> <<0, 0>>, max |-> mx]
CNames == {"x", "1", "x1", "x_1", "x1_0", "a b", "2", ".5", "x2", "x.5", "", "x0", "x_0"}
RNames == {"c0", "0", "c_0", "c0_0", "r 1", "obj", "1", "c1", "c_1", "", "c2", "c_2"}
CN == IF Family = "namesq" THEN {"x", "1", "x1", "x_1", "a b", ".5", ""} ELSE CNames
RN == IF Family = "namesq" THEN {"c0", "0", "c_0", "r 1", "obj", ""} ELSE RNames
InitNames == \E cn \in [1..3 -> CN], rn \in [1..2 -> RN], on \in {"obj", "1", "c1", "a:b"} :
  /\ \A a, b \in 1..3 : cn[a] = cn[b] => a = b
  /\ rn[1] # rn[2] /\ on \notin {rn[1], rn[2]}
  /\ objn = on
  /\ lp = [m |-> 2, n |-> 3, A |-> <<Row(<<"1", "-3", "0">>, 3), Row(<<"0", "2", "1/7">>, 3)>>, sense |-> <<"L", "R">>, rhs |-> <<"4", "-1">>, range |-> <<"0", "5/2">>,
           rname |-> rn, obj |-> <<"1", "0", "-1">>, lo |-> <<"0", "-inf", "1">>, up |-> <<"inf", "inf", "1">>, cname |-> cn, isint |-> <<0, 0, 1>>, max |-> FALSE]
Init == CASE Family = "bounds" -> InitBounds /\ objn = "obj" [] Family = "rows" -> InitRows /\ objn = "obj"
          [] Family = "rowsq" -> InitRowsQ /\ objn = "obj" [] OTHER -> InitNames
Next == UNCHANGED <<lp, objn>>
Spec == Init /\ [][Next]_<<lp, objn>>

\* the precondition of C08: every column has a non-zero coefficient somewhere, at least one non-empty row
Pre(L) == /\ \A j \in 1..L.n : L.obj[j] # "0" \/ \E i \in 1..L.m : W!CoefAt(L, i, j) # "0"
          /\ \E i \in 1..L.m : W!RowExpr(L, i) # <<>>
          /\ W!Writable(L)

ReadsBackTheSame == Pre(lp) => LET t == W!Write(lp, objn) IN LPF!WellFormedTree(t) /\ RT!RoundTripDefects(W!Renamed(lp, objn), LPF!Denote(t), FALSE) = {}
NamesRepaired == LET cn == W!ColNames(lp)  rn == W!RowNames(lp, objn) IN
  /\ \A a, b \in 1..Len(cn) : cn[a] = cn[b] => a = b
  /\ \A a, b \in 1..Len(rn) : rn[a] = rn[b] => a = b
  /\ \A a \in 1..Len(cn) : W!ValidName(cn[a]) /\ (W!ValidName(lp.cname[a]) => cn[a] = lp.cname[a])
  /\ \A a \in 1..Len(rn) : W!ValidName(rn[a]) /\ (a <= lp.m /\ W!ValidName(lp.rname[a]) => rn[a] = lp.rname[a])
\* the same for the MPS writer (C09): ranged rows must come back as ranged rows, names are written as they are
MPSReadsBackTheSame == (Pre(lp) /\ MW!Writable(lp)) => RT!RoundTripDefects(lp, MPSF!Denote(MW!Write(lp, objn)), TRUE) = {}
\* the reader sees the columns in order of first appearance; nothing else may differ: column data is compared position-free, by name
NumbersSurvive == \A j \in 1..lp.n : lp.lo[j] \notin {"inf", "-inf"} => W!BTok(W!BV(lp.lo[j])) = lp.lo[j]
\* the token stream never contains an empty token and ends with End
TokensSane == LET k == W!Tokens(W!Write(lp, objn)) IN k[Len(k)] = "End" /\ \A q \in 1..Len(k) : k[q] # ""
=============================================================================
