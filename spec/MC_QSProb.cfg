CONSTANTS MaxRows = 2 MaxCols = 2 Depth = 3
SPECIFICATION Spec
INVARIANT ShapeInv FailAtomic UndoLaw DeleteLaw ContentLaw
VIEW MCView
CHECK_DEADLOCK FALSE
