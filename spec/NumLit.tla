------------------------------- MODULE NumLit -------------------------------
(***************************************************************************)
(* Numeric literals of the LP and MPS formats.                              *)
(*  (i)  Value(s): the rational a literal DENOTES (s = sequence of 1-char    *)
(*       strings):  [sign] (digits [. digits*] | . digits) [(e|E) [sign]     *)
(*       digits]  optionally followed by  / <the same>  (non-zero divisor).  *)
(*       0.1 denotes 1/10 - never a binary approximation.                    *)
(*  (ii) Scan(s): a line-by-line transcription of the library's scanner      *)
(*       mpq_EGlpNumReadStrXc as a state machine over the characters.        *)
(* MC_NumLit checks on ALL short strings that the scanner refines the         *)
(* denotation; the driver binds the transcription to the real scanner         *)
(* (command readnum) on the same strings and on long literals.               *)
(***************************************************************************)
EXTENDS Integers, Sequences, BigRat

Digits == {"0", "1", "2", "3", "4", "5", "6", "7", "8", "9"}
IsDigit(c) == c \in Digits

\* ------------------------------------------------------------------ denotation
RECURSIVE TakeDigits(_, _)
TakeDigits(s, i) == IF i <= Len(s) /\ IsDigit(s[i]) THEN TakeDigits(s, i + 1) ELSE i     \* first position that is not a digit
RECURSIVE DigitsVal(_, _, _, _)
DigitsVal(s, i, j, acc) == IF i >= j THEN acc ELSE DigitsVal(s, i + 1, j, RAdd(RMul(acc, "10"), s[i]))
ToStr(d) == CASE d = 0 -> "0" [] d = 1 -> "1" [] d = 2 -> "2" [] d = 3 -> "3" [] d = 4 -> "4" [] d = 5 -> "5" [] d = 6 -> "6" [] d = 7 -> "7" [] d = 8 -> "8" [] OTHER -> "9"
\* exponents: accumulated as the scanner does - once the value exceeds 9999 a further digit makes the string "not a number"
\* (fix 1fa1197: the exponent is bounded by 99999); ExpTooBig saturates so that TLC's 32-bit integers are safe
ExpLimit == 9999
RECURSIVE SmallInt(_, _, _, _)
SmallInt(s, i, j, acc) == IF i >= j THEN acc ELSE IF acc > ExpLimit THEN acc ELSE SmallInt(s, i + 1, j, 10 * acc + (CHOOSE d \in 0..9 : ToStr(d) = s[i]))
RECURSIVE ExpTooBig(_, _, _, _)
ExpTooBig(s, i, j, acc) == IF i >= j THEN FALSE ELSE IF acc > ExpLimit THEN TRUE ELSE ExpTooBig(s, i + 1, j, 10 * acc + (CHOOSE d \in 0..9 : ToStr(d) = s[i]))

\* one part (no '/'): [ok, end (position after the part), val]
ParsePart(s, i) ==
  LET neg == i <= Len(s) /\ s[i] = "-"
      i1  == IF i <= Len(s) /\ s[i] \in {"+", "-"} THEN i + 1 ELSE i
      j   == TakeDigits(s, i1)
      hasInt == j > i1
      hasDot == j <= Len(s) /\ s[j] = "."
      k0  == IF hasDot THEN j + 1 ELSE j
      k   == IF hasDot THEN TakeDigits(s, k0) ELSE j
      hasFrac == k > k0
      okMant == hasInt \/ (hasDot /\ hasFrac)
      mant == RAdd(DigitsVal(s, i1, j, "0"), IF hasFrac THEN RMul(DigitsVal(s, k0, k, "0"), RPow10(-(k - k0))) ELSE "0")
      hasE == k <= Len(s) /\ s[k] \in {"e", "E"}
      e1  == k + 1
      eneg == hasE /\ e1 <= Len(s) /\ s[e1] = "-"
      e2  == IF hasE /\ e1 <= Len(s) /\ s[e1] \in {"+", "-"} THEN e1 + 1 ELSE e1
      e3  == IF hasE THEN TakeDigits(s, e2) ELSE k
      okExp == hasE /\ e3 > e2
      ex  == IF okExp THEN SmallInt(s, e2, e3, 0) ELSE 0
      endp == IF okExp THEN e3 ELSE k
      v0  == IF okExp THEN RMul(mant, RPow10(IF eneg THEN -ex ELSE ex)) ELSE mant
  IN [ok |-> okMant /\ (hasE => okExp) /\ ~(okExp /\ ExpTooBig(s, e2, e3, 0)), end |-> endp, val |-> IF okMant THEN (IF neg THEN RNeg(v0) ELSE v0) ELSE "0"]

\* whole string is a valid literal
Parse(s) ==
  LET p1 == ParsePart(s, 1) IN
  IF ~p1.ok THEN [ok |-> FALSE, val |-> "0"]
  ELSE IF p1.end = Len(s) + 1 THEN [ok |-> TRUE, val |-> p1.val]
  ELSE IF s[p1.end] = "/" THEN
         LET p2 == ParsePart(s, p1.end + 1) IN
         IF p2.ok /\ p2.end = Len(s) + 1 /\ p2.val # "0" THEN [ok |-> TRUE, val |-> RDiv(p1.val, p2.val)] ELSE [ok |-> FALSE, val |-> "0"]
  ELSE [ok |-> FALSE, val |-> "0"]
IsLiteral(s) == Parse(s).ok
Value(s) == Parse(s).val

\* ------------------------------------------------------------------ the scanner (eg_lpnum.c: mpq_EGlpNumReadStrXc)
ScanInit == [a_dot |-> TRUE, a_exp |-> FALSE, a_exp_sgn |-> FALSE, a_sgn |-> TRUE, a_div |-> TRUE, cn |-> 0, n_dig |-> 0,
             num |-> <<"0", "0">>, den |-> <<"1", "1">>,      \* den[cn] = num[cn+1]/den[cn+1] ; part 1 starts as 1/1
             l_exp |-> 0, bad_exp |-> FALSE, sgn |-> FALSE, exp_sgn |-> FALSE, n |-> 0]
ScanInit1 == [ScanInit EXCEPT !.num = <<"0", "1">>]
Accepts(st, c) == \/ IsDigit(c) \/ (st.a_dot /\ c = ".") \/ (st.a_exp /\ c \in {"e", "E"}) \/ (st.a_sgn /\ c \in {"+", "-"})
                  \/ (st.a_div /\ c = "/") \/ (st.a_exp_sgn /\ c \in {"+", "-"})
\* apply exponent and sign to part p (1-based index into num/den)
Finish(st, p) ==
  LET e == IF st.exp_sgn THEN -st.l_exp ELSE st.l_exp
      n1 == IF e > 0 THEN RMul(st.num[p], RPow10(e)) ELSE st.num[p]
      d1 == IF e < 0 THEN RMul(st.den[p], RPow10(-e)) ELSE st.den[p]
  IN [st EXCEPT !.num[p] = IF st.sgn THEN RNeg(n1) ELSE n1, !.den[p] = d1]
ScanChar(st, c) ==
  LET p == st.cn + 1
      s1 == CASE IsDigit(c) ->
                   (IF st.a_exp \/ st.n_dig = 0
                    THEN [st EXCEPT !.den[p] = IF ~st.a_dot THEN RMul(@, "10") ELSE @, !.num[p] = RAdd(RMul(@, "10"), c),
                                    !.n_dig = @ + 1, !.a_exp = TRUE, !.a_sgn = FALSE]
                    ELSE [st EXCEPT !.l_exp = IF @ > ExpLimit THEN @ ELSE 10 * @ + (CHOOSE d \in 0..9 : ToStr(d) = c), !.bad_exp = @ \/ st.l_exp > ExpLimit,
                                    !.a_exp_sgn = FALSE, !.a_sgn = FALSE])
             [] c = "." -> [st EXCEPT !.a_sgn = FALSE, !.a_dot = FALSE]
             [] c \in {"+", "-"} ->
                   [st EXCEPT !.sgn = IF c = "-" /\ st.a_sgn THEN TRUE ELSE @,
                              !.exp_sgn = IF c = "-" /\ ~st.a_sgn THEN TRUE ELSE @,
                              !.a_sgn = FALSE, !.a_exp_sgn = FALSE]
             [] c \in {"e", "E"} -> [st EXCEPT !.a_sgn = FALSE, !.a_exp = FALSE, !.a_exp_sgn = TRUE]
             [] OTHER ->    \* "/"
                   [Finish(st, 1) EXCEPT !.num[2] = "0", !.den[2] = "1", !.sgn = FALSE, !.exp_sgn = FALSE, !.l_exp = 0, !.a_div = FALSE, !.n_dig = 0,
                                         !.a_dot = TRUE, !.a_exp = FALSE, !.a_exp_sgn = FALSE, !.a_sgn = TRUE, !.cn = 1]
  IN [s1 EXCEPT !.n = @ + 1]
RECURSIVE ScanFrom(_, _)
ScanFrom(s, st) == IF st.n < Len(s) /\ Accepts(st, s[st.n + 1]) THEN ScanFrom(s, ScanChar(st, s[st.n + 1])) ELSE st
\* result of the call: number of characters consumed and the value stored (unchanged = "none" when 0 characters)
Scan(s) ==
  LET st == ScanFrom(s, ScanInit1)
      f  == Finish(st, st.cn + 1)
      v1 == RDiv(f.num[1], f.den[1])
      d2 == f.num[2]      \* numerator of the divisor part (den[1] in the C code); the initial 1/1 when there is no '/'
  IN IF st.n = 0 \/ st.bad_exp THEN [used |-> 0, val |-> "none"]      \* an exponent beyond 99999: not a number (fix 1fa1197)
     ELSE IF d2 = "0" THEN [used |-> 0, val |-> "none"]           \* p/0 or "p/": not a number (fix 12ac85b)
     ELSE [used |-> st.n, val |-> RDiv(v1, RDiv(f.num[2], f.den[2]))]
=============================================================================
