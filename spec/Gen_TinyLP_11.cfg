CONSTANTS M = 1 N = 1
SPECIFICATION Spec
INVARIANT Emit
CHECK_DEADLOCK FALSE
