CONSTANTS N = 2 Vals = {"-1", "0", "1", "2"} Depth = 2 EtaMax = 1 Gen = FALSE
SPECIFICATION Spec
INVARIANT ValidIsNonsingular RepairExists RepairTerminates
VIEW MCView
CHECK_DEADLOCK FALSE
