------------------------------ MODULE MC_Residue ------------------------------
(***************************************************************************)
(* The residue rules of Residue.tla as a state machine with a ghost variable   *)
(* `valid` (the stored solution was computed for the data the problem has      *)
(* now).  TLC checks over all call sequences that the rules never serve a       *)
(* stale solution, that a stored solution implies OPTIMAL and a stored basis,   *)
(* and that rejected calls change nothing.                                     *)
(***************************************************************************)
EXTENDS Residue, TLC
VARIABLES r, valid, last
vars == <<r, valid, last>>

Statuses == {OPTIMAL, INFEASIBLE, UNBOUNDED, UNSOLVED}
Init == r = Fresh /\ valid = FALSE /\ last = [call |-> "create", ok |-> TRUE, before |-> Fresh]

Solve(st) ==
  /\ r' = [basis |-> TRUE, cache |-> (st = OPTIMAL), status |-> st]
  /\ valid' = (st = OPTIMAL)
  /\ last' = [call |-> "solve", ok |-> TRUE, before |-> r]

\* a successful call of kind c; `harmless` says whether the data the solution depends on is unchanged
\* (a row delete of basic rows with zero duals, an objective sense "change" to the same sense)
Call(c, harmless) ==
  /\ After(c, r) # {}
  /\ \E n \in After(c, r) :
        /\ (n.cache /\ c \in RowDeletes \cup {"change_objsense"} => harmless)      \* the code keeps the solution only in the harmless case
        /\ r' = n
        /\ valid' = (valid /\ n.cache /\ (c \in PureQueries \cup ParamCalls \cup BasisLoads \/ harmless))
  /\ last' = [call |-> c, ok |-> TRUE, before |-> r]

Rejected(c) == /\ c \in RejectKinds /\ UNCHANGED <<r, valid>> /\ last' = [call |-> c, ok |-> FALSE, before |-> r]

Kinds == {"add_row", "delete_col", "change_coef", "change_bound", "delete_row", "change_objsense", "dump", "set_param", "load_basis", "write_basis"}
Next == \/ \E st \in Statuses : Solve(st)
        \/ \E c \in Kinds, h \in BOOLEAN : Call(c, h)
        \/ \E c \in Kinds : Rejected(c)
Spec == Init /\ [][Next]_vars

NoStaleSolution == r.cache => valid
SolutionMeansOptimal == r.cache => r.status = OPTIMAL /\ r.basis
EditMarksModified == last.ok /\ last.call \in DataEdits => r.status = MODIFIED /\ ~r.cache
RejectedChangesNothing == ~last.ok => r = last.before
=============================================================================
