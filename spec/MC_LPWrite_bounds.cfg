CONSTANT Family = "bounds"
SPECIFICATION Spec
INVARIANT ReadsBackTheSame
INVARIANT NumbersSurvive
INVARIANT TokensSane
INVARIANT MPSReadsBackTheSame
INVARIANT NamesRepaired
CHECK_DEADLOCK FALSE
