------------------------------ MODULE MC_Factor ------------------------------
(***************************************************************************)
(* The factor/update protocol of Factor.tla as a state machine over ALL       *)
(* N x N matrices with entries in Vals (N <= 3), driven the way basis.c        *)
(* drives it: refactor (with the repair loop on a singular report), column     *)
(* replacements, refactor requests.  TLC checks                                *)
(*   ValidIsNonsingular   the work is never usable for a singular matrix       *)
(*   RepairExists         for every singular matrix an acceptable singular     *)
(*                        report exists (the postcondition the trace           *)
(*                        specification demands of ILLfactor is satisfiable)   *)
(*   RepairTerminates     the refactor after a repair succeeds (the do-while   *)
(*                        of ILLbasis_factor needs one extra round at most)    *)
(* and (invariant Emit) writes every history of the bounded instance - start   *)
(* matrix and the sequence of column replacements - for replay on the real     *)
(* component (harness/facx).                                                  *)
(***************************************************************************)
EXTENDS Factor, TLC, Json, IOUtils, CSV
CONSTANTS N, Vals, Depth, EtaMax,
          Gen      \* TRUE: generator instance - one (arbitrary) acceptable report per singular matrix instead of all of them

VARIABLES M, valid, etas, repaired, hist
vars == <<M, valid, etas, repaired, hist>>

ColOf(f) == SelectSeq([i \in 1..N |-> [j |-> i, v |-> f[i]]], LAMBDA e : e.v # "0")
Cols == {ColOf(f) : f \in [1..N -> Vals]}
Mats == {[n |-> N, col |-> c] : c \in [1..N -> Cols]}

\* the reports ILLfactor may give for a singular matrix: distinct (row, position) pairs whose repair is non-singular
RECURSIVE SeqsOf(_, _)
SeqsOf(S, k) == IF k = 0 THEN {<<>>} ELSE {Append(s, x) : s \in SeqsOf(S, k - 1), x \in S}
Reports(X) == {r \in UNION {SeqsOf((1..N) \X (1..N), k) : k \in 1..N} :
                 LET rows == [k \in 1..Len(r) |-> r[k][1]]  cols == [k \in 1..Len(r) |-> r[k][2]] IN
                   SingReportOK(N, Len(r), rows, cols) /\ ~Singular(Repair(X, rows, cols, 1))}

Refactor ==
  /\ ~valid
  /\ IF Singular(M)
     THEN \E r \in (IF Gen THEN {CHOOSE r \in Reports(M) : TRUE} ELSE Reports(M)) :
            /\ M' = Repair(M, [k \in 1..Len(r) |-> r[k][1]], [k \in 1..Len(r) |-> r[k][2]], 1)
            /\ valid' = FALSE /\ repaired' = TRUE
     ELSE M' = M /\ valid' = TRUE /\ repaired' = FALSE
  /\ etas' = 0 /\ hist' = hist

Update(pos, a) ==
  /\ valid /\ Len(hist) <= Depth
  /\ M' = Replace(M, pos, a)
  /\ \/ ~Singular(M') /\ etas < EtaMax /\ valid' = TRUE /\ etas' = etas + 1     \* ILLfactor_update returned 0
     \/ valid' = FALSE /\ etas' = etas                                        \* singular / no space / eta limit: refactor
  /\ repaired' = FALSE
  /\ hist' = Append(hist, [op |-> "update", pos |-> pos, a |-> a])

Next == Refactor \/ \E pos \in 1..N, a \in Cols : Update(pos, a)
Init == M \in Mats /\ valid = FALSE /\ etas = 0 /\ repaired = FALSE /\ hist = <<[op |-> "start", m |-> M]>>
Spec == Init /\ [][Next]_vars

ValidIsNonsingular == valid => ~Singular(M)
RepairExists == Singular(M) => Reports(M) # {}
RepairTerminates == repaired => ~Singular(M)
\* solves are functions of M when valid: M x = a has exactly one solution (Cramer / non-zero determinant); nothing to choose

MCView == <<M, valid, etas, repaired, Len(hist)>>
GenOut == IF "GENOUT" \in DOMAIN IOEnv THEN IOEnv.GENOUT ELSE "/dev/null"
Emit == Len(hist) = Depth + 1 /\ ~valid /\ ~repaired => CSVWrite("%1$s", <<ToJson(hist)>>, GenOut)
=============================================================================
