CONSTANT MaxObj = 5
INIT Init
NEXT Next
INVARIANT NoLeakAtShutdown CanFinish
CHECK_DEADLOCK FALSE
