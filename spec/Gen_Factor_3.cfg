CONSTANTS N = 3 Vals = {"0", "1", "-1"} Depth = 1 EtaMax = 1 Gen = TRUE
SPECIFICATION Spec
INVARIANT Emit
CHECK_DEADLOCK FALSE
