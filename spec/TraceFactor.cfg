SPECIFICATION Spec
INVARIANT Export
CHECK_DEADLOCK FALSE
