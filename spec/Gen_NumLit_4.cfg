CONSTANT MaxLen = 4
SPECIFICATION Spec
INVARIANT Emit
CHECK_DEADLOCK FALSE
