CONSTANTS M = 1 N = 2
SPECIFICATION Spec
INVARIANT Emit
CHECK_DEADLOCK FALSE
