CONSTANTS XM = 1  MaxRows = 2  MaxCols = 2  MaxCap = 6  Vals = {7}
INIT Init
NEXT Next
CONSTRAINT Bound
INVARIANTS WellFormed NoOutOfBounds Refines
CHECK_DEADLOCK FALSE
