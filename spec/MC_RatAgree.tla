----------------------------- MODULE MC_RatAgree -----------------------------
(* Binds the Java override (BigRat) to the pure TLA+ definition (Rat): every operator agrees on
   every pair of small rationals.  One "state" per pair; the check is the invariant. *)
EXTENDS Integers, Sequences, TLC
R == INSTANCE Rat
B == INSTANCE BigRat
CONSTANT N
VARIABLE a, b
Smalls == { R!Norm(n, d) : n \in -N..N, d \in 1..N }
Str(q) == B!RFrac(q[1], q[2])
Init == a \in Smalls /\ b \in Smalls
Next == UNCHANGED <<a, b>>
Agree ==
  /\ B!RAdd(Str(a), Str(b)) = Str(R!QAdd(a, b))
  /\ B!RSub(Str(a), Str(b)) = Str(R!QSub(a, b))
  /\ B!RMul(Str(a), Str(b)) = Str(R!QMul(a, b))
  /\ (b[1] # 0 => B!RDiv(Str(a), Str(b)) = Str(R!QDiv(a, b)))
  /\ B!RNeg(Str(a)) = Str(R!QNeg(a))
  /\ B!RAbs(Str(a)) = Str(R!QAbs(a))
  /\ B!RLeq(Str(a), Str(b)) = R!QLeq(a, b)
  /\ B!RLt(Str(a), Str(b)) = R!QLt(a, b)
  /\ B!RSign(Str(a)) = R!QSign(a)
  /\ B!RIsRat(Str(a))
  /\ B!RCanon(Str(a)) = Str(a)
  /\ (a[1] # 0 => LET e == B!RLog2(Str(a)) IN B!RLeq(B!RPow2(e), B!RAbs(Str(a))) /\ B!RLt(B!RAbs(Str(a)), B!RPow2(e + 1)))
  /\ B!RPow10(2) = "100" /\ B!RPow10(-1) = "1/10" /\ B!RPow2(-3) = "1/8"
=============================================================================
