INIT Init
NEXT Next
INVARIANT BasisOptionHarmless TypeTable
CHECK_DEADLOCK FALSE
