------------------------------- MODULE LPWrite -------------------------------
(***************************************************************************)
(* What the LP-format WRITER produces (qsopt_ex/lp.c ILLwrite_lp with        *)
(* write_objective, write_row, write_bounds, write_intvars, and the default-  *)
(* bound rules ILLraw_default_lower / ILLraw_default_upper of rawlp.c),        *)
(* transcribed as a function from a problem L (record of QSProb) to the        *)
(* structured token tree of LPFile.tla:                                       *)
(*        Write(L)  : tree          Tokens(tree) : the flat token stream       *)
(* Layout (line breaks after LINE_LEN characters, blanks, the RANGE comment)   *)
(* carries no meaning and is not modelled: wrapping a line moves a "+" to the   *)
(* end of the line, the token stream stays the same.  Names that are not valid  *)
(* in LP format are repaired as fix_names / ILLsymboltab_uname do (FixNames).   *)
(*                                                                         *)
(* Three legs decide C08 with it:                                            *)
(*   (a) MC_LPWrite: for EVERY small problem,  LPFile!Denote(Write(L))  is     *)
(*       related to L by RoundTrip!RoundTripDefects = {}   (design level);     *)
(*   (b) Trace.tla, event lp_text: the tokens of the file the real writer       *)
(*       produced are Tokens(Write(L)) for the problem L the handle holds       *)
(*       (a difference is specification drift, listed in the evidence);         *)
(*   (c) C10: the real reader on a token tree yields LPFile!Denote(tree).       *)
(***************************************************************************)
EXTENDS Integers, Sequences, FiniteSets, TLC, BigRat

IsInfS(v) == v \in {"inf", "-inf"}
NegS(v) == v = "-inf" \/ (v # "inf" /\ RSign(v) < 0)          \* EGlpNumIsLessZero on the stored number

\* ---------------------------------------------------------------- numbers
Term(v, name) == [neg |-> RSign(v) < 0, coef |-> IF RAbs(v) = "1" THEN <<>> ELSE RChars(RAbs(v)), var |-> name]
BV(v) == IF v = "inf" THEN [neg |-> FALSE, inf |-> TRUE, lit |-> <<>>]
         ELSE IF v = "-inf" THEN [neg |-> TRUE, inf |-> TRUE, lit |-> <<>>]
         ELSE [neg |-> RSign(v) < 0, inf |-> FALSE, lit |-> RChars(RAbs(v))]

\* ---------------------------------------------------------------- names (lp.c ILLis_lp_name_char, fix_names; symtab.c ILLsymboltab_uname)
Letters == {"a", "b", "c", "d", "e", "f", "g", "h", "i", "j", "k", "l", "m", "n", "o", "p", "q", "r", "s", "t", "u", "v", "w", "x", "y", "z",
            "A", "B", "C", "D", "E", "F", "G", "H", "I", "J", "K", "L", "M", "N", "O", "P", "Q", "R", "S", "T", "U", "V", "W", "X", "Y", "Z"}
DigitCh == {"0", "1", "2", "3", "4", "5", "6", "7", "8", "9"}
SymCh == {"!", "\"", "#", "$", "%", "&", "(", ")", "/", ",", ";", "?", "@", "_", "`", "'", "{", "}", "|", "~"}
NameChar(c, pos) == c \in Letters \/ c \in SymCh \/ (pos > 0 /\ (c \in DigitCh \/ c = "."))
\* a name with a character outside the alphabet is replaced by its index; a leading digit or '.' is still tolerated here
Buf(name, i) == LET cs == RChars(name) IN
  IF cs # <<>> /\ NameChar(cs[1], 1) /\ \A k \in 2..Len(cs) : NameChar(cs[k], k - 1) THEN name ELSE ToString(i - 1)
NeedsPrefix(buf) == ~NameChar(RChars(buf)[1], 0)
ValidName(name) == name # "" /\ Buf(name, 1) = name /\ ~NeedsPrefix(name)
\* first free one of  p buf,  p_ buf,  p buf _0,  p buf _1, ...
Uname(table, buf, p) ==
  IF (p \o buf) \notin table THEN p \o buf
  ELSE IF (p \o "_" \o buf) \notin table THEN p \o "_" \o buf
  ELSE LET free == {k \in 0..Cardinality(table) : (p \o buf \o "_" \o ToString(k)) \notin table}
           k0 == CHOOSE k \in free : \A q \in free : k <= q
       IN p \o buf \o "_" \o ToString(k0)
RECURSIVE FixFrom(_, _, _, _)
FixFrom(all, table, i, p) ==      \* the names i.. of all, the table holding the current name of every entry
  IF i > Len(all) THEN <<>>
  ELSE LET buf == Buf(all[i], i) IN
       IF NeedsPrefix(buf) THEN LET new == Uname(table, buf, p) IN <<new>> \o FixFrom(all, (table \ {all[i]}) \cup {new}, i + 1, p)
       ELSE <<all[i]>> \o FixFrom(all, table, i + 1, p)
FixNames(all, p) == FixFrom(all, {all[k] : k \in 1..Len(all)}, 1, p)
ColNames(L) == FixNames(L.cname, "x")
RowNames(L, objname) == FixNames(L.rname \o <<objname>>, "c")      \* the objective name takes part as entry m+1
\* the problem as the written text names it
Renamed(L, objname) == [L EXCEPT !.cname = ColNames(L), !.rname = SubSeq(RowNames(L, objname), 1, L.m)]

\* ---------------------------------------------------------------- expressions: non-zero terms in column order
CoefAt(L, i, j) == LET h == {k \in 1..Len(L.A[i]) : L.A[i][k].j = j} IN IF h = {} THEN "0" ELSE L.A[i][CHOOSE k \in h : TRUE].v
RECURSIVE TermsFrom(_, _, _)
TermsFrom(val, names, j) ==      \* val: column -> value (sequence), terms of the columns j..n with a non-zero value
  IF j > Len(names) THEN <<>>
  ELSE (IF val[j] = "0" THEN <<>> ELSE <<Term(val[j], names[j])>>) \o TermsFrom(val, names, j + 1)
RowExpr(L, i) == TermsFrom([j \in 1..L.n |-> CoefAt(L, i, j)], L.cname, 1)
ObjExpr(L) == TermsFrom(L.obj, L.cname, 1)

\* ---------------------------------------------------------------- rows: empty rows are not written, a ranged row becomes two rows
RowTrees(L, i) ==
  LET e == RowExpr(L, i)
      row(name, op, v) == [name |-> name, terms |-> e, op |-> op, rneg |-> RSign(v) < 0, rhs |-> RChars(RAbs(v))]
  IN IF L.A[i] = <<>> THEN <<>>        \* a row with no STORED entry; one whose stored coefficients are all zero is written with an empty expression
     ELSE CASE L.sense[i] = "G" -> <<row(L.rname[i], ">=", L.rhs[i])>>
            [] L.sense[i] = "L" -> <<row(L.rname[i], "<=", L.rhs[i])>>
            [] L.sense[i] = "E" -> <<row(L.rname[i], "=", L.rhs[i])>>
            [] OTHER -> <<row(L.rname[i], ">=", L.rhs[i]), row("", "<=", RAdd(L.rhs[i], L.range[i]))>>     \* second half has no name
RECURSIVE RowsFrom(_, _)
RowsFrom(L, i) == IF i > L.m THEN <<>> ELSE RowTrees(L, i) \o RowsFrom(L, i + 1)

\* ---------------------------------------------------------------- bounds (rawlp.c: what the reader assumes when nothing is written)
DefaultLower(lo, up) == (lo = "0" /\ ~NegS(up)) \/ (lo = "-inf" /\ NegS(up))
DefaultUpper(lo, up, isint) == IF isint /\ lo = "0" THEN up = "1" ELSE up = "inf"
BoundEntry(L, j) ==
  LET lo == L.lo[j]  up == L.up[j]  nm == L.cname[j]
      pl == ~DefaultLower(lo, up)
      pu == ~DefaultUpper(lo, up, L.isint[j] = 1)
  IN IF lo = up THEN <<[k |-> "fix", var |-> nm, v |-> BV(up)]>>
     ELSE IF lo = "-inf" /\ up = "inf" THEN <<[k |-> "free", var |-> nm]>>
     ELSE IF pl /\ pu THEN <<[k |-> "lu", var |-> nm, lo |-> BV(lo), up |-> BV(up)]>>
     ELSE IF pl THEN <<[k |-> "l", var |-> nm, lo |-> BV(lo)]>>
     ELSE IF pu THEN <<[k |-> "u", var |-> nm, up |-> BV(up)]>>
     ELSE <<>>
RECURSIVE BoundsFrom(_, _)
BoundsFrom(L, j) == IF j > L.n THEN <<>> ELSE BoundEntry(L, j) \o BoundsFrom(L, j + 1)
RECURSIVE IntsFrom(_, _)
IntsFrom(L, j) == IF j > L.n THEN <<>> ELSE (IF L.isint[j] = 1 THEN <<L.cname[j]>> ELSE <<>>) \o IntsFrom(L, j + 1)

WriteNamed(L, objname) == [minmax |-> IF L.max THEN "MAXIMIZE" ELSE "MINIMIZE",
             obj |-> [name |-> objname, terms |-> ObjExpr(L)],
             rows |-> RowsFrom(L, 1), bounds |-> BoundsFrom(L, 1), ints |-> IntsFrom(L, 1)]
Write(L, objname) == WriteNamed(Renamed(L, objname), RowNames(L, objname)[L.m + 1])

\* what the writer can express: finite data, bounds that are numbers or the matching infinity
Writable(L) ==
  /\ \A j \in 1..L.n : ~IsInfS(L.obj[j]) /\ L.lo[j] # "inf" /\ L.up[j] # "-inf"
  /\ \A i \in 1..L.m : ~IsInfS(L.rhs[i]) /\ ~IsInfS(L.range[i]) /\ \A k \in 1..Len(L.A[i]) : ~IsInfS(L.A[i][k].v)

\* ---------------------------------------------------------------- the token stream of a tree (what a blank-separated reading of the file gives)
Join(cs) == RJoin(cs)
RECURSIVE ExprTok(_, _)
ExprTok(terms, k) ==
  IF k > Len(terms) THEN <<>>
  ELSE LET t == terms[k] IN
       (IF t.neg THEN <<"-">> ELSE IF k > 1 THEN <<"+">> ELSE <<>>)
       \o (IF t.coef = <<>> THEN <<>> ELSE <<Join(t.coef)>>) \o <<t.var>> \o ExprTok(terms, k + 1)
BTok(b) == IF b.inf THEN (IF b.neg THEN "-inf" ELSE "inf") ELSE (IF b.neg THEN "-" ELSE "") \o Join(b.lit)
RowTok(r) == (IF r.name = "" THEN <<>> ELSE <<r.name \o ":">>) \o ExprTok(r.terms, 1) \o <<r.op, (IF r.rneg THEN "-" ELSE "") \o Join(r.rhs)>>
BoundTok(e) == CASE e.k = "fix" -> <<e.var, "=", BTok(e.v)>>
                 [] e.k = "free" -> <<e.var, "free">>
                 [] e.k = "lu" -> <<BTok(e.lo), "<=", e.var, "<=", BTok(e.up)>>
                 [] e.k = "l" -> <<BTok(e.lo), "<=", e.var>>
                 [] OTHER -> <<e.var, "<=", BTok(e.up)>>
RECURSIVE FlatRows(_, _)
FlatRows(seq, k) == IF k > Len(seq) THEN <<>> ELSE RowTok(seq[k]) \o FlatRows(seq, k + 1)
RECURSIVE FlatBounds(_, _)
FlatBounds(seq, k) == IF k > Len(seq) THEN <<>> ELSE BoundTok(seq[k]) \o FlatBounds(seq, k + 1)
Tokens(tree) ==
  <<IF tree.minmax = "MAXIMIZE" THEN "Maximize" ELSE "Minimize">>
  \o (IF tree.obj.terms = <<>> THEN <<>> ELSE <<tree.obj.name \o ":">> \o ExprTok(tree.obj.terms, 1))      \* an all-zero objective is not written at all
  \o <<"Subject", "To">> \o FlatRows(tree.rows, 1)
  \o (IF tree.bounds = <<>> THEN <<>> ELSE <<"Bounds">> \o FlatBounds(tree.bounds, 1))
  \o (IF tree.ints = <<>> THEN <<>> ELSE <<"Integer">> \o tree.ints)
  \o <<"End">>
=============================================================================
