----------------------------- MODULE RoundTrip -----------------------------
(***************************************************************************)
(* The relation "problem L2 is what problem L1 must read back as" of C08 /   *)
(* C09: same objective sense; matched by NAME the same columns with          *)
(* identical objective coefficients, bounds and integrality marks; the same   *)
(* row constraints, where a ranged row may come back as its two one-sided     *)
(* halves (LP format; native = FALSE) or must come back as a ranged row       *)
(* (MPS; native = TRUE) and empty rows are dropped; every number the          *)
(* identical rational (canonical strings: equality of strings is equality of  *)
(* rationals).  Used by Trace.tla on the real writer + real reader (event      *)
(* rt_check) and by MC_LPWrite on the writer specification LPWrite.tla.        *)
(***************************************************************************)
EXTENDS Integers, Sequences, FiniteSets, BigRat
UNKNOWN == ""      \* a generated name (as QSProb!UNKNOWN)
SetOfSeq(s) == {s[k] : k \in 1..Len(s)}
RowTerms(L, i) == {<<L.cname[L.A[i][k].j], L.A[i][k].v>> : k \in {k \in 1..Len(L.A[i]) : L.A[i][k].v # "0"}}
RowHalves(L, i) == LET t == RowTerms(L, i) IN
  CASE L.sense[i] = "L" -> {[t |-> t, k |-> "le", b |-> L.rhs[i]]}
    [] L.sense[i] = "G" -> {[t |-> t, k |-> "ge", b |-> L.rhs[i]]}
    [] L.sense[i] = "E" -> {[t |-> t, k |-> "eq", b |-> L.rhs[i]]}
    [] OTHER -> {[t |-> t, k |-> "ge", b |-> L.rhs[i]], [t |-> t, k |-> "le", b |-> RAdd(L.rhs[i], L.range[i])]}
NonEmptyRows(L) == {i \in 1..L.m : RowTerms(L, i) # {}}
Halves(L) == UNION {RowHalves(L, i) : i \in NonEmptyRows(L)}
\* an equation and the pair of its two inequalities denote the same constraint
NormHalves(H) == UNION {IF h.k = "eq" THEN {[t |-> h.t, k |-> "ge", b |-> h.b], [t |-> h.t, k |-> "le", b |-> h.b]} ELSE {h} : h \in H}
ColIdx(L, nm) == CHOOSE j \in 1..L.n : L.cname[j] = nm
RowIdx(L, nm) == CHOOSE i \in 1..L.m : L.rname[i] = nm
RoundTripDefects(L1, L2, native) ==    \* native: ranged rows must come back as ranged rows (MPS)
  (IF L1.max = L2.max THEN {} ELSE {"objective sense"})
  \cup (IF SetOfSeq(L1.cname) = SetOfSeq(L2.cname) /\ L1.n = L2.n THEN
          (IF \A j \in 1..L1.n : LET k == ColIdx(L2, L1.cname[j]) IN
                 L2.obj[k] = L1.obj[j] /\ L2.lo[k] = L1.lo[j] /\ L2.up[k] = L1.up[j] /\ L2.isint[k] = L1.isint[j]
           THEN {} ELSE {"a column (matched by name) differs in objective coefficient, bounds or integrality"})
          \cup (IF NormHalves(Halves(L1)) = NormHalves(Halves(L2)) THEN {} ELSE {"row constraints differ"})
          \cup (IF \A i \in NonEmptyRows(L1) : (L1.rname[i] # UNKNOWN /\ (L1.sense[i] # "R" \/ native)) =>
                      /\ L1.rname[i] \in SetOfSeq(L2.rname)
                      /\ LET k == RowIdx(L2, L1.rname[i]) IN
                           /\ RowTerms(L2, k) = RowTerms(L1, i) /\ L2.sense[k] = L1.sense[i] /\ L2.rhs[k] = L1.rhs[i]
                           /\ (L1.sense[i] = "R" => L2.range[k] = L1.range[i])
                THEN {} ELSE {"a row (matched by name) differs"})
          \cup (IF native => Cardinality(NonEmptyRows(L2)) = Cardinality(NonEmptyRows(L1)) THEN {} ELSE {"number of rows"})
        ELSE {"column names differ"})
=============================================================================
