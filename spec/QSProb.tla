------------------------------- MODULE QSProb -------------------------------
(***************************************************************************)
(* The problem object of the mpq_QS* interface as a reference model: the    *)
(* documented meaning of every edit call as a pure function on LP values    *)
(* (see LPSem for the shape of an LP value), and the validity condition of  *)
(* every call.  Arguments are exactly what the C call receives (0-based      *)
(* indices); the LP value uses 1-based sequences.                           *)
(*                                                                         *)
(* These operators are used three ways: by the model-checking instances      *)
(* (MC_QSProb: all short edit histories on tiny LPs), by the scenario         *)
(* generator (Gen_Api) and by the trace specification (Trace), which checks  *)
(* every logged call of the real library against them.                       *)
(***************************************************************************)
EXTENDS Integers, Sequences, FiniteSets, BigRat

Senses == {"L", "G", "E", "R"}
Range(s) == {s[k] : k \in 1..Len(s)}
NoDup(s) == \A a, b \in 1..Len(s) : s[a] = s[b] => a = b
UNKNOWN == ""      \* a NULL name argument: the library generates a name, not yet observed

EmptyLP(max) ==
  [m |-> 0, n |-> 0, A |-> <<>>, sense |-> <<>>, rhs |-> <<>>, range |-> <<>>, rname |-> <<>>,
   obj |-> <<>>, lo |-> <<>>, up |-> <<>>, cname |-> <<>>, isint |-> <<>>, max |-> max]

\* ------------------------------------------------------------------ sparse rows
\* ent: sequence of [j |-> 0-based index, v |-> value] as passed to the C call
EntIdx(ent) == [k \in 1..Len(ent) |-> ent[k].j]
EntValid(ent, count) == (\A k \in 1..Len(ent) : ent[k].j >= 0 /\ ent[k].j < count)
EntNoDup(ent) == NoDup(EntIdx(ent))
\* sorted 1-based row from entries
RECURSIVE InsertSorted(_, _)
InsertSorted(row, e) ==   \* row sorted by j, e.j not present
  IF row = <<>> THEN <<e>>
  ELSE IF e.j < row[1].j THEN <<e>> \o row
  ELSE <<row[1]>> \o InsertSorted(Tail(row), e)
RECURSIVE SortEnt(_, _)
SortEnt(ent, k) == IF k = 0 THEN <<>> ELSE InsertSorted(SortEnt(ent, k - 1), [j |-> ent[k].j + 1, v |-> ent[k].v])
RowOfEnt(ent) == SortEnt(ent, Len(ent))
RowHas(row, j) == \E k \in 1..Len(row) : row[k].j = j
RowGet(row, j) == LET h == SelectSeq(row, LAMBDA e : e.j = j) IN IF h = <<>> THEN "0" ELSE h[1].v
RowSet(row, j, v) == IF RowHas(row, j) THEN [k \in 1..Len(row) |-> IF row[k].j = j THEN [j |-> j, v |-> v] ELSE row[k]]
                     ELSE InsertSorted(row, [j |-> j, v |-> v])
\* remove the columns in set S (1-based) and renumber
NewIndex(S, j) == j - Cardinality({s \in S : s < j})
RowDelCols(row, S) == LET kept == SelectSeq(row, LAMBDA e : e.j \notin S)
                      IN [k \in 1..Len(kept) |-> [j |-> NewIndex(S, kept[k].j), v |-> kept[k].v]]
SeqDel(s, S) == LET idx == SelectSeq([k \in 1..Len(s) |-> k], LAMBDA k : k \notin S)
                IN [k \in 1..Len(idx) |-> s[idx[k]]]
NzCount(L) == LET RECURSIVE C(_)
                  C(i) == IF i = 0 THEN 0 ELSE C(i - 1) + Len(L.A[i])
              IN C(L.m)

\* ------------------------------------------------------------------ names
NameFresh(names, nm) == nm = UNKNOWN \/ nm \notin Range(names)
\* the C call gets a name or NULL; NULL is logged as the JSON null -> we pass the string UNKNOWN
\* ------------------------------------------------------------------ rows
AddRowValid(L, ent, sense, name) ==
  /\ EntValid(ent, L.n)
  /\ sense \in Senses
  /\ (name # UNKNOWN => name \notin Range(L.rname))
\* outcome not specified by the documented meaning (duplicate indices in one row)
AddRowUnspec(L, ent) == ~EntNoDup(ent)
AddRow(L, ent, rhs, sense, range, name) ==
  [L EXCEPT !.m = @ + 1, !.A = Append(@, RowOfEnt(ent)), !.sense = Append(@, sense), !.rhs = Append(@, rhs),
            !.range = Append(@, IF sense = "R" THEN range ELSE "0"), !.rname = Append(@, name)]
DelRowsValid(L, S0) == \A i \in S0 : i >= 0 /\ i < L.m        \* S0: set of 0-based indices
DelRows(L, S0) == LET S == {i + 1 : i \in S0} IN
  [L EXCEPT !.m = @ - Cardinality(S), !.A = SeqDel(@, S), !.sense = SeqDel(@, S), !.rhs = SeqDel(@, S),
            !.range = SeqDel(@, S), !.rname = SeqDel(@, S)]
\* ------------------------------------------------------------------ columns
AddColValid(L, ent, name) ==
  /\ EntValid(ent, L.m)
  /\ (name # UNKNOWN => name \notin Range(L.cname))
AddColUnspec(L, ent) == ~EntNoDup(ent)
AddCol(L, ent, obj, lo, up, name) ==
  LET jn == L.n + 1
      val(i) == LET h == SelectSeq(ent, LAMBDA e : e.j = i - 1) IN h[1].v
      has(i) == \E k \in 1..Len(ent) : ent[k].j = i - 1
  IN [L EXCEPT !.n = jn,
               !.A = [i \in 1..L.m |-> IF has(i) THEN Append(L.A[i], [j |-> jn, v |-> val(i)]) ELSE L.A[i]],
               !.obj = Append(@, obj), !.lo = Append(@, lo), !.up = Append(@, up), !.cname = Append(@, name),
               !.isint = Append(@, 0)]
DelColsValid(L, S0) == \A j \in S0 : j >= 0 /\ j < L.n
DelCols(L, S0) == LET S == {j + 1 : j \in S0} IN
  [L EXCEPT !.n = @ - Cardinality(S), !.A = [i \in 1..L.m |-> RowDelCols(L.A[i], S)],
            !.obj = SeqDel(@, S), !.lo = SeqDel(@, S), !.up = SeqDel(@, S), !.cname = SeqDel(@, S), !.isint = SeqDel(@, S)]
\* ------------------------------------------------------------------ changes
RowIdxValid(L, i) == i >= 0 /\ i < L.m
ColIdxValid(L, j) == j >= 0 /\ j < L.n
ChgCoef(L, i, j, v) == [L EXCEPT !.A[i + 1] = RowSet(@, j + 1, v)]
ChgObj(L, j, v)  == [L EXCEPT !.obj[j + 1] = v]
ChgRhs(L, i, v)  == [L EXCEPT !.rhs[i + 1] = v]
ChgSense(L, i, s) == [L EXCEPT !.sense[i + 1] = s, !.range[i + 1] = IF s = "R" THEN (IF L.sense[i + 1] = "R" THEN @ ELSE "0") ELSE "0"]
ChgRangeValid(L, i) == RowIdxValid(L, i) /\ L.sense[i + 1] = "R"
ChgRange(L, i, v) == [L EXCEPT !.range[i + 1] = v]
BoundSelValid(lu) == lu \in {"L", "U", "B"}
ChgBound(L, j, lu, v) ==
  [L EXCEPT !.lo[j + 1] = IF lu \in {"L", "B"} THEN v ELSE @,
            !.up[j + 1] = IF lu \in {"U", "B"} THEN v ELSE @]
RECURSIVE ChgBounds(_, _, _, _, _)
ChgBounds(L, list, lus, vals, k) == IF k > Len(list) THEN L ELSE ChgBounds(ChgBound(L, list[k], lus[k], vals[k]), list, lus, vals, k + 1)
RECURSIVE ChgSenses(_, _, _, _)
ChgSenses(L, list, ss, k) == IF k > Len(list) THEN L ELSE ChgSenses(ChgSense(L, list[k], ss[k]), list, ss, k + 1)
ObjSenseValid(os) == os \in {1, -1}
ChgObjSense(L, os) == [L EXCEPT !.max = (os = -1)]

\* ------------------------------------------------------------------ shape invariant of an LP value
Shape(L) ==
  /\ L.m >= 0 /\ L.n >= 0
  /\ Len(L.A) = L.m /\ Len(L.sense) = L.m /\ Len(L.rhs) = L.m /\ Len(L.range) = L.m /\ Len(L.rname) = L.m
  /\ Len(L.obj) = L.n /\ Len(L.lo) = L.n /\ Len(L.up) = L.n /\ Len(L.cname) = L.n /\ Len(L.isint) = L.n
  /\ \A i \in 1..L.m : /\ L.sense[i] \in Senses
                       /\ \A k \in 1..Len(L.A[i]) : L.A[i][k].j \in 1..L.n
                       /\ \A k \in 1..(Len(L.A[i]) - 1) : L.A[i][k].j < L.A[i][k + 1].j
  /\ \A a, b \in 1..L.m : (L.rname[a] = L.rname[b] /\ L.rname[a] # UNKNOWN) => a = b
  /\ \A a, b \in 1..L.n : (L.cname[a] = L.cname[b] /\ L.cname[a] # UNKNOWN) => a = b

\* content relevant for the mathematical answer (names and integrality marks are not)
Content(L) == [m |-> L.m, n |-> L.n, A |-> L.A, sense |-> L.sense, rhs |-> L.rhs, range |-> L.range,
               obj |-> L.obj, lo |-> L.lo, up |-> L.up, max |-> L.max]
=============================================================================
