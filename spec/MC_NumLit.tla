------------------------------ MODULE MC_NumLit ------------------------------
(* Every string of length <= MaxLen over the alphabet: on every VALID literal the scanner consumes the whole literal
   and yields the denoted value (ScannerRefinesDenotation); it never consumes more characters than there are; what it
   accepts beyond the grammar is listed in the state graph (informational). *)
EXTENDS Integers, Sequences, TLC, Json, CSV, IOUtils
CONSTANT MaxLen
N == INSTANCE NumLit
Alphabet == {"0", "1", "7", ".", "e", "+", "-", "/"}
VARIABLE s
Init == s = <<>>
Next == Len(s) < MaxLen /\ \E c \in Alphabet : s' = Append(s, c)
Spec == Init /\ [][Next]_s
ScannerRefinesDenotation == N!IsLiteral(s) => (N!Scan(s).used = Len(s) /\ N!Scan(s).val = N!Value(s))
NeverOverruns == N!Scan(s).used <= Len(s)
\* a literal followed by a character that cannot continue a number is read up to that character
PrefixStable == \A c \in {"x", " "} : N!IsLiteral(s) => N!Scan(Append(s, c)).used = Len(s)
GenOut == IF "GENOUT" \in DOMAIN IOEnv THEN IOEnv.GENOUT ELSE "/dev/null"
Emit == CSVWrite("%1$s", <<ToJson(s)>>, GenOut)
==============================================================================
