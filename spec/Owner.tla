-------------------------------- MODULE Owner --------------------------------
(***************************************************************************)
(* Ownership of heap objects the library hands to its caller: which call     *)
(* creates which kind of handle and which free function releases it.         *)
(* `live` is the set of objects the caller currently owns.                   *)
(***************************************************************************)
EXTENDS Integers, FiniteSets
CONSTANTS MaxObj
VARIABLES live, next, down
vars == <<live, next, down>>
Kinds == {"problem", "basis", "array", "collector", "linereader"}
\* creating calls per kind (a failing call creates nothing: the library must not hand out partial objects)
Creators == [problem |-> {"QScreate_prob", "QSload_prob", "QSread_prob", "QScopy_prob", "QSget_prob"},
             basis |-> {"QSget_basis", "QSread_basis"},
             array |-> {"QSget_rows", "QSget_ranged_rows", "QSget_columns", "QSget_rows_list", "QSget_columns_list", "QSget_rownames", "QSget_colnames", "QSget_probname", "QSget_objname"},
             collector |-> {"QSerror_collector_new", "QSerror_memory_collector_new"},
             linereader |-> {"QSline_reader_new"}]
Releasers == [problem |-> "QSfree_prob", basis |-> "QSfree_basis", array |-> "QSfree", collector |-> "QSerror_collector_free", linereader |-> "QSline_reader_free"]
Init == live = {} /\ next = 1 /\ down = FALSE
Create(k, ok) == /\ ~down /\ next <= MaxObj
                 /\ live' = IF ok THEN live \cup {[id |-> next, kind |-> k]} ELSE live
                 /\ next' = next + 1 /\ UNCHANGED down
Release(o) == /\ ~down /\ o \in live /\ live' = live \ {o} /\ UNCHANGED <<next, down>>
\* the driver protocol: shut down only when everything handed out has been released
Shutdown == /\ ~down /\ live = {} /\ down' = TRUE /\ UNCHANGED <<live, next>>
Next == (\E k \in Kinds, ok \in BOOLEAN : Create(k, ok)) \/ (\E o \in live : Release(o)) \/ Shutdown
Spec == Init /\ [][Next]_vars /\ WF_vars(Shutdown) /\ \A k \in Kinds : TRUE
NoLeakAtShutdown == down => live = {}
\* the protocol can always finish: from every state Shutdown is reachable by releases only
CanFinish == ~down => (live = {} => ENABLED Shutdown)
=============================================================================
