CONSTANTS M = 2 N = 1
SPECIFICATION Spec
INVARIANT Emit
CHECK_DEADLOCK FALSE
