------------------------------ MODULE ColStore ------------------------------
(***************************************************************************)
(* The column store behind every coefficient query (C06): ILLmatrix in       *)
(* lib.c - one array matind/matval of `cap` (matsize) slots, per column a     *)
(* region [beg, beg+cnt), holes marked -1, an empty column keeps ONE slot     *)
(* marked with the dummy value 1, and the last `free` (matfree) slots are the *)
(* unused tail new columns are carved from.                                 *)
(*                                                                         *)
(* This module is a REFINEMENT level below QSProb: its actions are the        *)
(* branches of matrix_addcol / matrix_addrow / matrix_addrow_end /            *)
(* matrix_addcoef / the entry removal of ILLlib_delrows / delcols_work        *)
(* (lib.c), transcribed slot by slot.  `Abs` maps a store to the abstract     *)
(* sparse matrix; MC_ColStore checks with TLC that every action preserves     *)
(* WF and commutes with the abstract operation (ghost M), and that no action  *)
(* reads or writes outside 0..cap-1.  Trace.tla evaluates WF and Abs on the   *)
(* arrays the driver dumps from the real ILLmatrix after every edit.          *)
(*                                                                         *)
(* A store is a record                                                      *)
(*   [cap, free, nrows, beg, cnt, ind, val, oob]                            *)
(* beg, cnt: sequences over the columns 1..ncols (slot numbers are 0-based as *)
(* in the code), ind, val: functions on 0..cap-1; rows are 0-based so that    *)
(* the dummy value 1 is the same integer as row index 1, as in the code.      *)
(***************************************************************************)
EXTENDS Integers, Sequences, FiniteSets

NCols(s) == Len(s.beg)
Slots(s) == 0..(s.cap - 1)
Width(s, j) == IF s.cnt[j] > 0 THEN s.cnt[j] ELSE 1                 \* an empty column owns one slot
Region(s, j) == s.beg[j]..(s.beg[j] + Width(s, j) - 1)
FreeTail(s) == (s.cap - s.free)..(s.cap - 1)

\* ---------------------------------------------------------------- the invariant the code relies on
RECURSIVE SumWidth(_, _)
SumWidth(cnt, j) == IF j > Len(cnt) THEN 0 ELSE (IF cnt[j] > 0 THEN cnt[j] ELSE 1) + SumWidth(cnt, j + 1)
Owned(s) == UNION {Region(s, j) : j \in 1..NCols(s)}
RegionsInBounds(s) == \A j \in 1..NCols(s) : s.cnt[j] >= 0 /\ s.beg[j] >= 0 /\ s.beg[j] + Width(s, j) <= s.cap
RegionsDisjoint(s) == Cardinality(Owned(s)) = SumWidth(s.cnt, 1)          \* no slot is counted twice
EntriesValid(s) == \A j \in 1..NCols(s) : s.cnt[j] > 0 =>
                      /\ \A k \in Region(s, j) : s.ind[k] >= 0 /\ s.ind[k] < s.nrows
                      /\ Cardinality({s.ind[k] : k \in Region(s, j)}) = s.cnt[j]                 \* no row twice in a column
EmptyMarked(s) == \A j \in 1..NCols(s) : s.cnt[j] = 0 => s.ind[s.beg[j]] # -1       \* "dummy value to stop columns from stealing this space"
TailFree(s) == /\ s.free >= 0 /\ s.free <= s.cap
               /\ \A k \in FreeTail(s) : s.ind[k] = -1
               /\ \A j \in 1..NCols(s) : s.beg[j] + Width(s, j) <= s.cap - s.free
\* consequence used by the append branches: a -1 right behind a column belongs to nobody
StealSafe(s) == LET own == Owned(s) IN
                \A j \in 1..NCols(s) : LET k == s.beg[j] + s.cnt[j] IN
                  (s.cnt[j] > 0 /\ k < s.cap /\ s.ind[k] = -1) => k \notin own

WFReasons(s) ==
  IF ~RegionsInBounds(s) THEN {"a column region lies outside the array"}
  ELSE (IF RegionsDisjoint(s) THEN {} ELSE {"two column regions overlap"})
       \cup (IF EntriesValid(s) THEN {} ELSE {"row index out of range or repeated within a column"})
       \cup (IF EmptyMarked(s) THEN {} ELSE {"the slot of an empty column is marked free (-1)"})
       \cup (IF TailFree(s) THEN {} ELSE {"the free tail is not free (owned by a column or not -1)"})
       \cup (IF StealSafe(s) THEN {} ELSE {"the -1 behind a column belongs to another column"})
WF(s) == WFReasons(s) = {}

\* ---------------------------------------------------------------- refinement mapping
AbsCol(s, j) == {<<s.ind[k], s.val[k]>> : k \in (IF s.cnt[j] > 0 THEN Region(s, j) ELSE {})}
Abs(s) == [j \in 1..NCols(s) |-> AbsCol(s, j)]

\* ---------------------------------------------------------------- reads and writes (out-of-bounds accesses are recorded, not hidden)
Rd(s, k) == IF k \in Slots(s) THEN s.ind[k] ELSE -2
RdOOB(s, k) == k \notin Slots(s)
Put(s, k, r, v) == IF k \in Slots(s) THEN [s EXCEPT !.ind[k] = r, !.val[k] = v] ELSE [s EXCEPT !.oob = TRUE]
Mark(s, k, r) == IF k \in Slots(s) THEN [s EXCEPT !.ind[k] = r] ELSE [s EXCEPT !.oob = TRUE]

Empty == [cap |-> 0, free |-> 0, nrows |-> 0, beg |-> <<>>, cnt |-> <<>>, ind |-> <<>>, val |-> <<>>, oob |-> FALSE]

Extend(s, by) == [s EXCEPT !.cap = @ + by, !.free = @ + by,
                           !.ind = [k \in 0..(s.cap + by - 1) |-> IF k < s.cap THEN s.ind[k] ELSE -1],
                           !.val = [k \in 0..(s.cap + by - 1) |-> IF k < s.cap THEN s.val[k] ELSE 0]]

\* ---------------------------------------------------------------- matrix_addcol (lib.c)
\* ents: sequence of <<row, val>>
AddCol(s, ents, XM) ==
  LET c == Len(ents)
      g == IF s.free < c + 1 THEN Extend(s, c + XM + 1) ELSE s
      at == g.cap - g.free
  IN IF c = 0
     THEN [Mark(g, at, 1) EXCEPT !.beg = Append(@, at), !.cnt = Append(@, 0), !.free = @ - 1]
     ELSE [g EXCEPT !.beg = Append(@, at), !.cnt = Append(@, c), !.free = @ - c,
                    !.ind = [k \in DOMAIN @ |-> IF k \in at..(at + c - 1) THEN ents[k - at + 1][1] ELSE @[k]],
                    !.val = [k \in DOMAIN @ |-> IF k \in at..(at + c - 1) THEN ents[k - at + 1][2] ELSE @[k]]]

\* ---------------------------------------------------------------- matrix_addrow_end: rebuild into a larger array
\* ents: sequence of <<col, val>>; the new entries get row index `row`
RECURSIVE SumW(_, _, _)
SumW(cntn, j, upto) == IF j > upto THEN 0 ELSE (IF cntn[j] > 0 THEN cntn[j] ELSE 1) + SumW(cntn, j + 1, upto)
AddRowEnd(s, row, ents, XM) ==
  LET n == NCols(s)
      cols == {ents[i][1] : i \in 1..Len(ents)}
      cntn == [j \in 1..n |-> s.cnt[j] + (IF j \in cols THEN 1 ELSE 0)]
      nbeg == [j \in 1..n |-> SumW(cntn, 1, j - 1)]
      total == SumW(cntn, 1, n)
      ncap == s.cap + Len(ents) + XM
      EntOf(j) == CHOOSE i \in 1..Len(ents) : ents[i][1] = j
      Owner(k) == CHOOSE j \in 1..n : k >= nbeg[j] /\ k < nbeg[j] + (IF cntn[j] > 0 THEN cntn[j] ELSE 1)
      NewInd(k) == IF k >= total THEN -1
                   ELSE LET j == Owner(k) off == k - nbeg[j] IN
                        IF cntn[j] = 0 THEN 1
                        ELSE IF off < s.cnt[j] THEN s.ind[s.beg[j] + off] ELSE row
      NewVal(k) == IF k >= total THEN 0
                   ELSE LET j == Owner(k) off == k - nbeg[j] IN
                        IF cntn[j] = 0 THEN 0
                        ELSE IF off < s.cnt[j] THEN s.val[s.beg[j] + off] ELSE ents[EntOf(j)][2]
  IN [s EXCEPT !.cap = ncap, !.free = ncap - total, !.beg = nbeg, !.cnt = cntn,
               !.ind = [k \in 0..(ncap - 1) |-> NewInd(k)], !.val = [k \in 0..(ncap - 1) |-> NewVal(k)]]

\* ---------------------------------------------------------------- one new entry in column j (shared by addrow's loop and addcoef)
\* branch "move the column to the end of the used space, leaving one -1 in front"
RECURSIVE CopyTo(_, _, _, _)
CopyTo(s, from, to, left) == IF left = 0 THEN s
                             ELSE CopyTo(Mark(Put(s, to, Rd(s, from), IF from \in Slots(s) THEN s.val[from] ELSE 0), from, -1),
                                         from + 1, to + 1, left - 1)
MoveAndAppend(s, j, row, v) ==
  LET dst == s.cap - s.free + 1
      c == s.cnt[j]
      m == CopyTo(s, s.beg[j], dst, c)
  IN [Put(m, dst + c, row, v) EXCEPT !.beg[j] = dst, !.cnt[j] = c + 1, !.free = @ - (c + 2)]
AppendInPlace(s, j, row, v) ==
  LET k == s.beg[j] + s.cnt[j] IN
  [Put(s, k, row, v) EXCEPT !.cnt[j] = @ + 1, !.free = IF k = s.cap - s.free THEN @ - 1 ELSE @]
FirstEntry(s, j, row, v) == [Put(s, s.beg[j], row, v) EXCEPT !.cnt[j] = 1]

\* ---------------------------------------------------------------- matrix_addrow
NeedMove(s, j) == s.cnt[j] > 0 /\ (s.beg[j] + s.cnt[j] + 1 > s.cap \/ Rd(s, s.beg[j] + s.cnt[j]) # -1)
RECURSIVE Delta(_, _, _)
Delta(s, ents, i) == IF i > Len(ents) THEN 0
                     ELSE (IF NeedMove(s, ents[i][1]) THEN s.cnt[ents[i][1]] + 2 ELSE 0) + Delta(s, ents, i + 1)
RECURSIVE RowLoop(_, _, _, _)
RowLoop(s, row, ents, i) ==
  IF i > Len(ents) THEN s
  ELSE LET j == ents[i][1] v == ents[i][2] k == s.beg[j] + s.cnt[j] IN
       RowLoop(IF s.cnt[j] = 0 THEN FirstEntry(s, j, row, v)
               ELSE IF RdOOB(s, k) THEN [s EXCEPT !.oob = TRUE]           \* the loop reads matind[beg+cnt] unguarded
               ELSE IF s.ind[k] = -1 THEN AppendInPlace(s, j, row, v)
               ELSE MoveAndAppend(s, j, row, v),
               row, ents, i + 1)
AddRow(s, ents, XM) ==
  LET r == IF Delta(s, ents, 1) < s.free THEN RowLoop(s, s.nrows, ents, 1) ELSE AddRowEnd(s, s.nrows, ents, XM)
  IN [r EXCEPT !.nrows = @ + 1]

\* ---------------------------------------------------------------- matrix_addcoef (an existing entry is overwritten, also by 0)
AddCoef(s, row, j, v, XM) ==
  LET hit == {k \in s.beg[j]..(s.beg[j] + s.cnt[j] - 1) : s.ind[k] = row}
      k == s.beg[j] + s.cnt[j]
  IN IF hit # {} THEN [s EXCEPT !.val[CHOOSE x \in hit : TRUE] = v]
     ELSE IF s.cnt[j] = 0 THEN FirstEntry(s, j, row, v)
     ELSE IF k < s.cap /\ s.ind[k] = -1 THEN AppendInPlace(s, j, row, v)
     ELSE IF s.free > s.cnt[j] + 2 THEN MoveAndAppend(s, j, row, v)
     ELSE AddRowEnd(s, row, <<<<j, v>>>>, XM)

\* ---------------------------------------------------------------- ILLlib_delrows: "remove the entries to deleted rows, and update the indices"
NewRowIndex(R, i) == i - Cardinality({r \in R : r < i})
RECURSIVE Compact(_, _, _, _, _, _)
\* walks the region of column j: `rd` next slot to read, `wr` next slot to write
Compact(s, R, j, rd, wr, stop) ==
  IF rd >= stop THEN s
  ELSE IF s.ind[rd] \in R THEN Compact(s, R, j, rd + 1, wr, stop)
       ELSE Compact(Put(s, wr, NewRowIndex(R, s.ind[rd]), s.val[rd]), R, j, rd + 1, wr + 1, stop)
DelRowsInCol(s, R, j) ==
  LET stop == s.beg[j] + s.cnt[j]
      dk == Cardinality({k \in s.beg[j]..(stop - 1) : s.ind[k] \in R})
      c == Compact(s, R, j, s.beg[j], s.beg[j], stop)
      f == [c EXCEPT !.ind = [k \in DOMAIN @ |-> IF k >= stop - dk /\ k < stop THEN -1 ELSE @[k]], !.cnt[j] = @ - dk]
  IN IF f.cnt[j] = 0 THEN Mark(f, f.beg[j], 1) ELSE f                      \* "we always mark the empty cols"
RECURSIVE DelRowsFrom(_, _, _)
DelRowsFrom(s, R, j) == IF j > NCols(s) THEN s ELSE DelRowsFrom(DelRowsInCol(s, R, j), R, j + 1)
DelRows(s, R) == [DelRowsFrom(s, R, 1) EXCEPT !.nrows = @ - Cardinality(R)]

\* ---------------------------------------------------------------- delcols_work: the entries of a deleted column become holes
RECURSIVE Keep(_, _, _)
Keep(seq, C, j) == IF j > Len(seq) THEN <<>> ELSE (IF j \in C THEN <<>> ELSE <<seq[j]>>) \o Keep(seq, C, j + 1)
DelCols(s, C) ==
  LET gone == UNION {s.beg[j]..(s.beg[j] + s.cnt[j] - 1) : j \in C}
  IN [s EXCEPT !.ind = [k \in DOMAIN @ |-> IF k \in gone THEN -1 ELSE @[k]], !.beg = Keep(@, C, 1), !.cnt = Keep(@, C, 1)]

\* ---------------------------------------------------------------- the abstract operations (what QSProb does to the matrix)
A_AddCol(M, ents) == Append(M, {<<ents[i][1], ents[i][2]>> : i \in 1..Len(ents)})
A_AddRow(M, nrows, ents) == [j \in 1..Len(M) |-> M[j] \cup {<<nrows, ents[i][2]>> : i \in {i \in 1..Len(ents) : ents[i][1] = j}}]
A_AddCoef(M, row, j, v) == [M EXCEPT ![j] = {e \in @ : e[1] # row} \cup {<<row, v>>}]
A_DelRows(M, R) == [j \in 1..Len(M) |-> {<<NewRowIndex(R, e[1]), e[2]>> : e \in {e \in M[j] : e[1] \notin R}}]
A_DelCols(M, C) == Keep(M, C, 1)
==============================================================================
