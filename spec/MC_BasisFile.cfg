CONSTANTS N = 3 M = 3
SPECIFICATION Spec
INVARIANT RoundTrip
CHECK_DEADLOCK FALSE
