------------------------------- MODULE MPSWrite -------------------------------
(***************************************************************************)
(* What the MPS WRITER produces (qsopt_ex/mps.c ILLwrite_mps, mps_write_col;  *)
(* default-bound rules of rawlp.c shared with the LP writer), as a function    *)
(* from a problem L to the structured content of MPSFile.tla:                  *)
(*   OBJSENSE MIN|MAX and OBJNAME are always written; ROWS lists the objective  *)
(*   and every row with a stored entry (a ranged row as G); COLUMNS lists, per  *)
(*   column, the objective coefficient if non-zero and every STORED entry        *)
(*   (explicit zeros too), integer columns between INTORG/INTEND markers; RHS    *)
(*   the non-zero right-hand sides; RANGES the range of every ranged row;        *)
(*   BOUNDS: FX for lower = upper, FR for a free column, otherwise MI or LO for   *)
(*   a non-default lower and PL or UP for a non-default upper bound.             *)
(* Not modelled: SOS sets and REFROW (no part of the linear program), the NAME   *)
(* line.  Names are written as they are.                                       *)
(* Legs as for LPWrite: (a) MC_MPSWrite: MPSFile!Denote(Write(L)) relates to L   *)
(* with ranged rows coming back as ranged rows; (b) event mps_text: the content   *)
(* of the file the real writer produced equals Strs(Write(L)) (entries of a       *)
(* column compared in row order: the storage order inside a column is not        *)
(* observable); (c) C10: the real reader on a tree yields MPSFile!Denote(tree).   *)
(***************************************************************************)
EXTENDS Integers, Sequences, FiniteSets, BigRat
LW == INSTANCE LPWrite

HasStored(L, i, j) == \E k \in 1..Len(L.A[i]) : L.A[i][k].j = j
Written(L, i) == L.A[i] # <<>>            \* rows without a stored entry are not written

RECURSIVE RowsFrom(_, _)
RowsFrom(L, i) == IF i > L.m THEN <<>>
                  ELSE (IF Written(L, i) THEN <<[t |-> IF L.sense[i] = "R" THEN "G" ELSE L.sense[i], name |-> L.rname[i]]>> ELSE <<>>) \o RowsFrom(L, i + 1)
RECURSIVE EntFrom(_, _, _)
EntFrom(L, j, i) == IF i > L.m THEN <<>>
                    ELSE (IF HasStored(L, i, j) THEN <<[row |-> L.rname[i], val |-> RChars(LW!CoefAt(L, i, j))]>> ELSE <<>>) \o EntFrom(L, j, i + 1)
Col(L, j, objname) == [col |-> L.cname[j], integer |-> L.isint[j] = 1,
                       ent |-> (IF L.obj[j] # "0" THEN <<[row |-> objname, val |-> RChars(L.obj[j])]>> ELSE <<>>) \o EntFrom(L, j, 1)]
RhsOf(L, i) == IF Written(L, i) /\ L.rhs[i] # "0" THEN <<[row |-> L.rname[i], val |-> RChars(L.rhs[i])]>> ELSE <<>>
RangeOf(L, i) == IF Written(L, i) /\ L.sense[i] = "R" THEN <<[row |-> L.rname[i], val |-> RChars(L.range[i])]>> ELSE <<>>
RECURSIVE RhsFrom(_, _)
RhsFrom(L, i) == IF i > L.m THEN <<>> ELSE RhsOf(L, i) \o RhsFrom(L, i + 1)
RECURSIVE RangesFrom(_, _)
RangesFrom(L, i) == IF i > L.m THEN <<>> ELSE RangeOf(L, i) \o RangesFrom(L, i + 1)
BoundsOf(L, j) ==
  LET lo == L.lo[j]  up == L.up[j]  nm == L.cname[j]
      pl == ~LW!DefaultLower(lo, up)
      pu == ~LW!DefaultUpper(lo, up, L.isint[j] = 1)
  IN IF lo = up THEN <<[t |-> "FX", col |-> nm, val |-> RChars(lo)]>>
     ELSE IF lo = "-inf" /\ up = "inf" THEN <<[t |-> "FR", col |-> nm, val |-> <<>>]>>
     ELSE (IF pl THEN (IF lo = "-inf" THEN <<[t |-> "MI", col |-> nm, val |-> <<>>]>> ELSE <<[t |-> "LO", col |-> nm, val |-> RChars(lo)]>>) ELSE <<>>)
          \o (IF pu THEN (IF up = "inf" THEN <<[t |-> "PL", col |-> nm, val |-> <<>>]>> ELSE <<[t |-> "UP", col |-> nm, val |-> RChars(up)]>>) ELSE <<>>)
RECURSIVE BoundsFrom(_, _)
BoundsFrom(L, j) == IF j > L.n THEN <<>> ELSE BoundsOf(L, j) \o BoundsFrom(L, j + 1)

Write(L, objname) ==
  [objsense |-> IF L.max THEN "MAX" ELSE "MIN", objname |-> objname, objrow |-> objname, nrows |-> <<>>,
   rows |-> RowsFrom(L, 1), cols |-> [j \in 1..L.n |-> Col(L, j, objname)],
   rhs |-> RhsFrom(L, 1), ranges |-> RangesFrom(L, 1), bounds |-> BoundsFrom(L, 1)]

\* finite data; a column with neither an objective coefficient nor a stored entry would not appear in COLUMNS
Writable(L) == LW!Writable(L) /\ \A j \in 1..L.n : L.obj[j] # "0" \/ \E i \in 1..L.m : HasStored(L, i, j)

\* the same content with every number as the string the file shows (what the trusted reader of the file delivers)
StrList(s) == [k \in 1..Len(s) |-> [s[k] EXCEPT !.val = RJoin(@)]]
Strs(tree) == [objsense |-> tree.objsense, objname |-> tree.objname, rows |-> tree.rows,
               cols |-> [j \in 1..Len(tree.cols) |-> [tree.cols[j] EXCEPT !.ent = StrList(@)]],
               rhs |-> StrList(tree.rhs), ranges |-> StrList(tree.ranges), bounds |-> StrList(tree.bounds)]
=============================================================================
