------------------------------- MODULE Residue -------------------------------
(***************************************************************************)
(* The SOLVER RESIDUE of a problem object - what survives between calls      *)
(* besides the LP data - as far as the public API shows it:                   *)
(*     basis  : a stored basis exists          (QSget_basis succeeds)         *)
(*     cache  : a stored solution exists       (the accessors succeed)        *)
(*     status : the value QSget_status returns                                *)
(* and the rules by which every kind of call changes it (transcribed from      *)
(* qsopt.c / lib.c, DESIGN.md appendix A).  Three uses:                       *)
(*  (i)  MC_Residue model-checks the rules as a state machine: a stored        *)
(*       solution is never served for data it was not computed for             *)
(*       (NoStaleSolution: the design-level core of C05), a stored solution    *)
(*       implies status OPTIMAL, a rejected call changes nothing (C07).        *)
(*  (ii) Trace.tla checks the rule "a REJECTED call leaves the residue         *)
(*       unchanged" on every event of every trace (tag C07: the driver logs     *)
(*       the three observables after every call).                              *)
(*  (iii) For SUCCESSFUL calls the predicted residue is compared with the       *)
(*       observed one; a difference is specification drift (tag SPEC-DRIFT,    *)
(*       listed in the evidence, never a violation: keeping a solution that    *)
(*       is provably still optimal would be a correct optimisation).           *)
(***************************************************************************)
EXTENDS Integers, FiniteSets

OPTIMAL == 1   INFEASIBLE == 2   UNBOUNDED == 3   UNSOLVED == 6   MODIFIED == 100

Proj(res) == [basis |-> res.basis = 1, cache |-> res.cache = 1, status |-> res.qstatus]
Fresh == [basis |-> FALSE, cache |-> FALSE, status |-> UNSOLVED]

\* ---------------------------------------------------------------- call kinds
DataEdits == {"new_col", "add_col", "add_cols", "new_row", "add_row", "add_rows", "add_ranged_row", "add_ranged_rows",
              "delete_col", "delete_cols", "delete_setcols", "delete_named_column", "delete_named_columns",
              "change_coef", "change_objcoef", "change_rhscoef", "change_range", "change_sense", "change_senses",
              "change_bound", "change_bounds"}
RowDeletes == {"delete_row", "delete_rows", "delete_setrows", "delete_named_row", "delete_named_rows"}
PureQueries == {"dump", "get_coef", "get_bound", "get_row_index", "get_column_index", "get_param", "get_basis", "get_basis_array",
                "write_prob", "write_basis", "read_basis", "get_infeas", "copy_conv"}
ParamCalls == {"set_param", "set_param_q"}
BasisLoads == {"load_basis", "load_basis_array", "read_and_load_basis"}
\* calls whose rejection (rval # 0) must leave the residue untouched (C07); solves and verdict functions are not in this set:
\* they legitimately end without an answer
RejectKinds == DataEdits \cup RowDeletes \cup PureQueries \cup ParamCalls \cup BasisLoads \cup {"change_objsense"}

\* ---------------------------------------------------------------- rules for successful calls: set of allowed results, {} = no statement
After(call, r) ==
  CASE call \in DataEdits -> {[r EXCEPT !.cache = FALSE, !.status = MODIFIED],                     \* solution dropped, basis kept / extended ...
                              [basis |-> FALSE, cache |-> FALSE, status |-> MODIFIED]}             \* ... or dropped with it (basic column deleted, ...)
                             \cup (IF call \in {"delete_cols", "delete_setcols", "delete_named_columns"} THEN {r} ELSE {})   \* an empty selection deletes nothing
    [] call \in RowDeletes -> {r,                                                                 \* only basic rows with zero duals deleted: all kept
                              [r EXCEPT !.cache = FALSE, !.status = MODIFIED],
                              [basis |-> FALSE, cache |-> FALSE, status |-> MODIFIED]}
    [] call = "change_objsense" -> {r, [r EXCEPT !.cache = FALSE, !.status = MODIFIED]}           \* unchanged when the sense did not change
    [] call \in PureQueries \cup ParamCalls -> {r}
    [] call \in BasisLoads -> {[r EXCEPT !.basis = TRUE]}
    [] OTHER -> {}

RejectedChanged(call, rval, before, after) == call \in RejectKinds /\ rval # 0 /\ after # before
Drift(call, rval, before, after) == rval = 0 /\ After(call, before) # {} /\ after \notin After(call, before)
=============================================================================
