-------------------------------- MODULE Trace --------------------------------
(***************************************************************************)
(* Trace specification: every call the driver made against the real library  *)
(* (one NDJSON record per call: arguments, return value, results, residue,   *)
(* stdout/stderr byte counts) must be a step the specification allows.       *)
(*                                                                         *)
(* The specification is TOTAL: a step that is not allowed does not block the  *)
(* trace; it adds a verdict [n, props, why] to `viol` and validation goes on  *)
(* (after a resynchronisation from the next full dump when the state cannot   *)
(* be predicted).  `props` names the properties of /verif/properties.jsonl    *)
(* the verdict belongs to.  The verdicts and the counters are written to the  *)
(* file named by environment variable VERDICT when the last record has been   *)
(* consumed.                                                                *)
(***************************************************************************)
EXTENDS Integers, Sequences, FiniteSets, TLC, Json, IOUtils, QSProb

S == INSTANCE LPSem
ED == INSTANCE ExactDriver WITH MaxMpf <- 12
BF == INSTANCE BasisFile
NL == INSTANCE NumLit
LPF == INSTANCE LPFile
MPSF == INSTANCE MPSFile
RES == INSTANCE Residue
LPW == INSTANCE LPWrite
MPSW == INSTANCE MPSWrite
CS == INSTANCE ColStore

Tr == ndJsonDeserialize(IOEnv.TRACE)
VerdictFile == IOEnv.VERDICT

Handles == {"h0", "h1", "h2", "h3", "h4", "h5", "h6", "h7"}
Slots   == {"b0", "b1", "b2", "b3", "b4", "b5", "b6", "b7"}

VARIABLES l,      \* next record
          st,     \* handle -> state of the problem object as the specification knows it
          slot,   \* basis slot -> basis value or NoBas
          glob,   \* process-wide: handler installed, precision
          ans,    \* ghost: set of [c |-> Content, status, val] - definitive answers seen in this scenario
          viol,   \* verdicts
          cnt     \* counters for the evidence
vars == <<l, st, slot, glob, ans, viol, cnt>>

NoBas == [none |-> TRUE]
Dead == [live |-> FALSE]
NewH(lp, sync) == [live |-> TRUE, sync |-> sync, lp |-> lp,
                   par |-> [ppricing |-> 3, dpricing |-> 7, display |-> 0, maxiter |-> 500000, scaling |-> 1],
                   pend |-> {},          \* property tags of calls since the last dump that must not have changed the LP
                   obs |-> [none |-> TRUE],  \* last observation of the stored solution / basis (sol event)
                   taint |-> {},         \* tags of non-mutating calls since that observation
                   mut |-> TRUE,         \* a mutating call happened since that observation
                   edited |-> FALSE,     \* an edit happened since the last solve
                   dirty |-> FALSE,      \* an edit happened since the last dump
                   lastres |-> [none |-> TRUE],   \* [status, val] of the last solve / solution observation
                   lastany |-> [none |-> TRUE],   \* [rval, status, call] of the last solve call, definitive or not
                   resid |-> [none |-> TRUE],     \* last observed residue (stored basis / stored solution / status) of the handle
                   truth |-> [none |-> TRUE],   \* verified witness of the LP's true status (reset by edits)
                   limits |-> FALSE]     \* iteration / objective limits set (non-definitive results legal)

V(ev, props, why) == [n |-> ev.n, call |-> ev.call, props |-> props, why |-> why]
R(s, v) == [s |-> s, v |-> v]

Init == /\ l = 1
        /\ st = [h \in Handles |-> Dead]
        /\ slot = [b \in Slots |-> NoBas]
        /\ glob = [handler |-> FALSE, prec |-> 128, files |-> {}]
        /\ ans = {}
        /\ viol = {}
        /\ cnt = [events |-> 0, dumps |-> 0, edits |-> 0, rejected |-> 0, optcerts |-> 0, farkas |-> 0, unb |-> 0,
                  solves |-> 0, solobs |-> 0, witnesses |-> 0, agree |-> 0, binv |-> 0, basisrt |-> 0, scenarios |-> 0,
                  quiet |-> 0, conv |-> 0, basverdicts |-> 0, lptext |-> 0, stores |-> 0]

\* ------------------------------------------------------------------ helpers on logged data
Pairs1(ent) == {<<ent[k].j + 1, ent[k].v>> : k \in 1..Len(ent)}        \* logged sparse vector, 0-based -> 1-based
RowPairs(row) == {<<row[k].j, row[k].v>> : k \in 1..Len(row)}
ColPairs(L, j) == {<<i, RowGet(L.A[i], j)>> : i \in {i \in 1..L.m : RowHas(L.A[i], j)}}
NameOrUnknown(nm) == nm                                                 \* "" = NULL = UNKNOWN

LPFromDump(ev) ==
  [m |-> ev.nrows, n |-> ev.ncols,
   A |-> [i \in 1..ev.nrows |-> RowOfEnt(ev.rows[i])],
   sense |-> ev.sense, rhs |-> ev.rhs,
   range |-> [i \in 1..ev.nrows |-> IF ev.sense[i] = "R" /\ Len(ev.range) = ev.nrows THEN ev.range[i] ELSE "0"],
   rname |-> IF Len(ev.rnames) = ev.nrows THEN ev.rnames ELSE [i \in 1..ev.nrows |-> UNKNOWN],
   obj |-> ev.obj, lo |-> ev.lo, up |-> ev.up,
   cname |-> IF Len(ev.cnames) = ev.ncols THEN ev.cnames ELSE [j \in 1..ev.ncols |-> UNKNOWN],
   isint |-> ev.isint, max |-> (ev.objsense = -1)]

DumpOK(ev) == ev.rv_objsense = 0 /\ ev.rv_obj = 0 /\ ev.rv_bounds = 0 /\ ev.rv_rhs = 0 /\ ev.rv_senses = 0
              /\ ev.rv_intflags = 0 /\ ev.rv_rrows = 0 /\ ev.rv_rows = 0 /\ ev.rv_cols = 0
              \* named deviation: with no rows (columns) at all the names query may report "no names assigned"
              /\ (ev.rv_rownames = 0 \/ ev.nrows = 0) /\ (ev.rv_colnames = 0 \/ ev.ncols = 0)

\* the modelled envelope: objective, right-hand sides, ranges and coefficients are finite numbers (only bounds may be infinite);
\* a file can put the library's "infinity" 1e150 anywhere - such a problem is still watched for crashes but not interpreted
DataFinite(ev) == /\ \A k \in 1..Len(ev.obj) : ~S!IsInf(ev.obj[k])
                  /\ \A k \in 1..Len(ev.rhs) : ~S!IsInf(ev.rhs[k])
                  /\ \A k \in 1..Len(ev.range) : ~S!IsInf(ev.range[k])
                  /\ \A i \in 1..Len(ev.rows) : \A k \in 1..Len(ev.rows[i]) : ~S!IsInf(ev.rows[i][k].v)

\* differences between a dump and the LP the specification holds (set of strings; {} = equal)
DumpDiff(L, ev) ==
  IF ~DumpOK(ev) THEN {"a query call failed"}
  ELSE IF ev.nrows # L.m \/ ev.ncols # L.n THEN {"row/column count"}
  ELSE
    (IF ev.nz = NzCount(L) THEN {} ELSE {"nzcount"})
    \cup (IF ev.objsense = (IF L.max THEN -1 ELSE 1) THEN {} ELSE {"objsense"})
    \cup (IF ev.obj = L.obj /\ ev.c_obj = L.obj THEN {} ELSE {"obj"})
    \cup (IF ev.lo = L.lo /\ ev.up = L.up /\ ev.c_lo = L.lo /\ ev.c_up = L.up THEN {} ELSE {"bounds"})
    \cup (IF ev.rhs = L.rhs /\ (L.m = 0 \/ ev.rr_rhs = L.rhs) THEN {} ELSE {"rhs"})
    \cup (IF ev.sense = L.sense /\ (L.m = 0 \/ ev.rr_sense = L.sense) THEN {} ELSE {"sense"})
    \cup (IF \A i \in 1..L.m : L.sense[i] = "R" => (Len(ev.range) = L.m /\ ev.range[i] = L.range[i]) THEN {} ELSE {"range"})
    \cup (IF \A i \in 1..L.m : Pairs1(ev.rows[i]) = RowPairs(L.A[i]) /\ Len(ev.rows[i]) = Len(L.A[i]) THEN {} ELSE {"rows (get_ranged_rows)"})
    \cup (IF \A i \in 1..L.m : Pairs1(ev.rows2[i]) = RowPairs(L.A[i]) /\ Len(ev.rows2[i]) = Len(L.A[i]) THEN {} ELSE {"rows (get_rows)"})
    \cup (IF \A j \in 1..L.n : Pairs1(ev.cols[j]) = ColPairs(L, j) /\ Len(ev.cols[j]) = Cardinality(ColPairs(L, j)) THEN {} ELSE {"columns (get_columns)"})
    \cup (IF ev.isint = L.isint THEN {} ELSE {"intflags"})
    \cup (IF /\ (L.m = 0 \/ (Len(ev.rnames) = L.m /\ ev.rnames = ev.rnames2)) /\ (L.m = 0 \/ Len(ev.rnames2) = L.m)
             /\ \A i \in 1..L.m : ev.rnames2[i] # "" /\ (L.rname[i] # UNKNOWN => ev.rnames2[i] = L.rname[i])
             /\ NoDup(ev.rnames2) /\ ev.ridx = [i \in 1..L.m |-> i - 1]
          THEN {} ELSE {"row names / name->index: " \o ToString(<<L.rname, ev.rnames, ev.rnames2, ev.ridx>>)})
    \cup (IF /\ (L.n = 0 \/ (Len(ev.cnames) = L.n /\ ev.cnames = ev.cnames2)) /\ (L.n = 0 \/ Len(ev.cnames2) = L.n)
             /\ \A j \in 1..L.n : ev.cnames2[j] # "" /\ (L.cname[j] # UNKNOWN => ev.cnames2[j] = L.cname[j])
             /\ NoDup(ev.cnames2) /\ ev.cidx = [j \in 1..L.n |-> j - 1]
          THEN {} ELSE {"column names / name->index: " \o ToString(<<L.cname, ev.cnames, ev.cnames2, ev.cidx>>)})

\* ------------------------------------------------------------------ the raw column store of the dump, seen through ColStore.tla
\* the driver logs the used prefix of matind/matval and the free tail run-length encoded (one run of -1 when it is free)
StoreOf(x) ==
  LET used == x.cap - x.free
      tailok == IF x.free = 0 THEN Len(x.tail) = 0 ELSE Len(x.tail) = 1 /\ x.tail[1].v = -1 /\ x.tail[1].c = x.free
  IN [cap |-> x.cap, free |-> x.free, nrows |-> x.nrows, beg |-> x.beg, cnt |-> x.cnt, oob |-> FALSE,
      ind |-> [k \in 0..(x.cap - 1) |-> IF k < used THEN x.ind[k + 1] ELSE IF tailok THEN -1 ELSE 0],
      val |-> [k \in 0..(x.cap - 1) |-> IF k < used THEN x.val[k + 1] ELSE "0"]]
StoreShapeOK(x) == /\ x.cap >= 0 /\ x.free >= 0 /\ x.free <= x.cap /\ Len(x.ind) = x.cap - x.free /\ Len(x.val) = Len(x.ind)
                   /\ Len(x.beg) = x.ncols /\ Len(x.cnt) = x.ncols /\ Len(x.structmap) = x.nstruct /\ Len(x.rowmap) = x.lprows
                   /\ x.ncols = x.nstruct + x.lprows /\ x.nrows = x.lprows
StoreDiff(L, ev) ==
  IF "store" \notin DOMAIN ev THEN {}
  ELSE LET x == ev.store IN
    IF ~StoreShapeOK(x) THEN {"column store: dimensions inconsistent"}
    ELSE LET cs == StoreOf(x)
             wf == CS!WFReasons(cs)
         IN IF wf # {} THEN {"column store: " \o r : r \in wf}
            ELSE IF x.nstruct # L.n \/ x.lprows # L.m THEN {}        \* reported by the counts already
            ELSE (IF /\ \A j \in 1..L.n : x.structmap[j] \in 0..(x.ncols - 1)
                     /\ \A i \in 1..L.m : x.rowmap[i] \in 0..(x.ncols - 1)
                     /\ Cardinality({x.structmap[j] : j \in 1..L.n} \cup {x.rowmap[i] : i \in 1..L.m}) = x.ncols
                  THEN (IF \A j \in 1..L.n : {<<e[1] + 1, e[2]>> : e \in CS!AbsCol(cs, x.structmap[j] + 1)} = ColPairs(L, j)
                        THEN {} ELSE {"column store: a structural column does not denote the model's column"})
                       \cup (IF \A i \in 1..L.m : LET c == CS!AbsCol(cs, x.rowmap[i] + 1) IN
                                   Cardinality(c) = 1 /\ \A e \in c : e[1] = i - 1 /\ e[2] \in {"1", "-1"}
                             THEN {} ELSE {"column store: a logical column is not a unit entry in its own row"})
                       \* the standard form behind the row senses: L/E rows carry a +1 logical, G/R rows a -1 logical, bounded
                       \* [0,inf) for L/G, [0,0] for E and [0,range] for R.  The query API shows only the sense; every solver works on this.
                       \cup (IF "lglo" \in DOMAIN x /\ Len(x.lglo) = L.m /\ Len(x.lgup) = L.m
                             THEN (IF \A i \in 1..L.m : \A e \in CS!AbsCol(cs, x.rowmap[i] + 1) :
                                        e[2] = (IF L.sense[i] \in {"G", "R"} THEN "-1" ELSE "1")
                                   THEN {} ELSE {"standard form: the sign of a logical column does not match the sense of its row"})
                                  \cup (IF \A i \in 1..L.m : x.lglo[i] = "0" /\ x.lgup[i] = (CASE L.sense[i] = "E" -> "0" [] L.sense[i] = "R" -> L.range[i] [] OTHER -> "inf")
                                        THEN {} ELSE {"standard form: the bounds of a logical column do not match sense/range of its row"})
                             ELSE {})
                  ELSE {"column store: structmap/rowmap is not a bijection onto the columns"})

ParDiff(par, ev) == (IF ev.par.ppricing = par.ppricing /\ ev.par.dpricing = par.dpricing /\ ev.par.display = par.display
                        /\ ev.par.maxiter = par.maxiter /\ ev.par.scaling = par.scaling THEN {} ELSE {"parameters"})
                    \* the objective limits are parameters too (a copy must carry them whatever the objective sense is at the moment)
                    \cup (IF {"objulim", "objllim"} \subseteq (DOMAIN par \cap DOMAIN ev.par) /\ (ev.par.objulim # par.objulim \/ ev.par.objllim # par.objllim)
                          THEN {"objective limits"} ELSE {})

\* ------------------------------------------------------------------ bookkeeping on a handle state
Edited(s)  == [s EXCEPT !.mut = TRUE, !.edited = TRUE, !.dirty = TRUE, !.truth = [none |-> TRUE], !.lastres = [none |-> TRUE]]
Mutated(s) == [s EXCEPT !.mut = TRUE]
Failed(s, tag)  == [s EXCEPT !.pend = @ \cup {tag}, !.taint = @ \cup {tag}]
Touched(s, tag) == [s EXCEPT !.taint = @ \cup {tag}]
Unsync(s) == [s EXCEPT !.sync = FALSE, !.mut = TRUE, !.truth = [none |-> TRUE]]

\* generic edit: valid/unspec are booleans, post the LP after a successful application
Edit(s, ev, valid, unspec, post) ==
  IF ~s.sync THEN R(s, {})
  ELSE IF unspec THEN R(Unsync(s), {})
  ELSE IF valid THEN (IF ev.rval = 0 THEN R(Edited([s EXCEPT !.lp = post]), {})
                      ELSE R(Failed(s, "C06"), {V(ev, {"C06"}, "valid edit rejected")}))
  ELSE IF ev.rval # 0 THEN R(Failed(s, "C07"), {})
  ELSE R(Unsync(s), {V(ev, {"C07"}, "invalid arguments accepted (rval 0)")})

SetOfSeq(s) == {s[k] : k \in 1..Len(s)}
NamesToIdx(names, list) == {CHOOSE i \in 0..(Len(names) - 1) : names[i + 1] = nm : nm \in SetOfSeq(list)}
FlagsToSet(flags) == {k - 1 : k \in {k \in 1..Len(flags) : flags[k] # 0}}

\* rows/cols given in list form: [ent, rhs, sense, (range), name]
RECURSIVE AddRowsSeq(_, _, _, _)
AddRowsSeq(L, rows, k, ranged) ==
  IF k > Len(rows) THEN L
  ELSE AddRowsSeq(AddRow(L, rows[k].ent, rows[k].rhs, rows[k].sense, IF ranged THEN rows[k].range ELSE "0", rows[k].name), rows, k + 1, ranged)
RowsValid(L, rows) ==
  /\ \A k \in 1..Len(rows) : EntValid(rows[k].ent, L.n) /\ rows[k].sense \in Senses
  /\ LET nms == SelectSeq([k \in 1..Len(rows) |-> rows[k].name], LAMBDA x : x # UNKNOWN)
     IN NoDup(nms) /\ SetOfSeq(nms) \cap SetOfSeq(L.rname) = {}
RECURSIVE AddColsSeq(_, _, _)
AddColsSeq(L, cols, k) ==
  IF k > Len(cols) THEN L ELSE AddColsSeq(AddCol(L, cols[k].ent, cols[k].obj, cols[k].lo, cols[k].up, cols[k].name), cols, k + 1)
ColsValid(L, cols) ==
  /\ \A k \in 1..Len(cols) : EntValid(cols[k].ent, L.m)
  /\ LET nms == SelectSeq([k \in 1..Len(cols) |-> cols[k].name], LAMBDA x : x # UNKNOWN)
     IN NoDup(nms) /\ SetOfSeq(nms) \cap SetOfSeq(L.cname) = {}

LoadLP(ev) ==
  LET L0 == [EmptyLP(ev.objsense = -1) EXCEPT !.m = ev.nr, !.A = [i \in 1..ev.nr |-> <<>>], !.sense = ev.sense, !.rhs = ev.rhs,
                                             !.range = [i \in 1..ev.nr |-> "0"], !.rname = ev.rnames]
  IN AddColsSeq(L0, [k \in 1..ev.nc |-> [ent |-> ev.cols[k], obj |-> ev.obj[k], lo |-> ev.lo[k], up |-> ev.up[k], name |-> ev.cnames[k]]], 1)
LoadValid(ev) == /\ \A k \in 1..ev.nc : EntValid(ev.cols[k], ev.nr) /\ EntNoDup(ev.cols[k])
                 /\ \A i \in 1..ev.nr : ev.sense[i] \in Senses
                 /\ ObjSenseValid(ev.objsense)
                 /\ NoDup(SelectSeq(ev.cnames, LAMBDA x : x # UNKNOWN)) /\ NoDup(SelectSeq(ev.rnames, LAMBDA x : x # UNKNOWN))

ParamValid(which, val) ==
  CASE which = 0 -> val \in {1, 2, 3, 4}
    [] which = 2 -> val \in {6, 7, 8, 9}
    [] which = 4 -> val \in 0..3
    [] which = 5 -> val > 0
    [] which = 7 -> val \in {0, 1}
    [] OTHER -> FALSE
ParamSet(par, which, val) ==
  CASE which = 0 -> [par EXCEPT !.ppricing = val]
    [] which = 2 -> [par EXCEPT !.dpricing = val]
    [] which = 4 -> [par EXCEPT !.display = val]
    [] which = 5 -> [par EXCEPT !.maxiter = val]
    [] which = 7 -> [par EXCEPT !.scaling = val]
    [] OTHER -> par

\* ------------------------------------------------------------------ solution checks
Sol5(ev) == [val |-> ev.objval, x |-> ev.x, pi |-> ev.pi, slack |-> ev.slack, rc |-> ev.rc]
SolAvail(ev) == ev.rv_x = 0 /\ ev.rv_pi = 0 /\ ev.rv_rc = 0 /\ ev.rv_slack = 0 /\ ev.rv_objval = 0
DefectText(ds) == {d.c : d \in ds}

\* record / compare the ghost answer of the LP content
AnsFor(c) == {a \in ans : a.c = c}
Definitive(status) == status \in {1, 2, 3}

\* status legal for a direct simplex call that is not definitive (named deviations, see DESIGN C04)
SolveResult(s, ev, x, hasx) ==
  \* returns set of verdicts for a solve-class event with rval/status (+ x,y when available)
  LET L == s.lp
      wf == S!WellFormed(L)
      truthv == IF "none" \in DOMAIN s.truth THEN {} ELSE
                  (IF ev.rval = 0 /\ Definitive(ev.status) /\ ev.status # s.truth.status
                     THEN {V(ev, {"C03"}, "status differs from the verified truth of the LP")} ELSE {})
                  \cup (IF ev.rval = 0 /\ ev.status = 1 /\ s.truth.status = 1 /\ hasx /\ S!ObjVal(L, SubSeq(x, 1, L.n)) # s.truth.val
                     THEN {V(ev, {"C03"}, "optimal value differs from the verified optimum")} ELSE {})
  IN truthv


\* ------------------------------------------------------------------ basis slots
NoneR == [none |-> TRUE]
IsNone(r) == "none" \in DOMAIN r
BasOf(b) == IF "cstat" \in DOMAIN b /\ "rstat" \in DOMAIN b THEN [cstat |-> b.cstat, rstat |-> b.rstat, opt |-> NoneR, bsol |-> NoneR]
            ELSE IF "cstat" \in DOMAIN b THEN [cstat |-> b.cstat, rstat |-> <<>>, opt |-> NoneR, bsol |-> NoneR]
            ELSE IF "rstat" \in DOMAIN b THEN [cstat |-> <<>>, rstat |-> b.rstat, opt |-> NoneR, bsol |-> NoneR]
            ELSE [cstat |-> <<>>, rstat |-> <<>>, opt |-> NoneR, bsol |-> NoneR]
\* same basic set, same at-upper assignments; a nonbasic free column may come back as free ("3") instead of at-lower ("0")
RoundTripBasisDefects(L, b1, b2) ==
  IF IsNone(b1) \/ IsNone(b2) THEN {"a basis is missing"}
  ELSE IF Len(b2.cstat) # Len(b1.cstat) \/ Len(b2.rstat) # Len(b1.rstat) THEN {"sizes differ"}
  ELSE (IF \A j \in 1..Len(b1.cstat) : b1.cstat[j] = b2.cstat[j]
              \/ ({b1.cstat[j], b2.cstat[j]} \subseteq {"0", "3"} /\ L.lo[j] = "-inf" /\ L.up[j] = "inf") THEN {} ELSE {"column statuses differ"})
       \cup (IF b1.rstat = b2.rstat THEN {} ELSE {"row statuses differ"})

\* ------------------------------------------------------------------ file round trip (C08 / C09): module RoundTrip
RT == INSTANCE RoundTrip
RoundTripDefects(L1, L2, native) == RT!RoundTripDefects(L1, L2, native)

\* ------------------------------------------------------------------ reduced precision copies (C16)
\* d is the exact value of the converted number: within one unit in the last place (bits = 53 for double)
ConvOK(q, d, bits) ==
  IF S!IsInf(q) \/ S!IsInf(d) THEN q = d
  ELSE IF q = "0" \/ d = "0" THEN q = d
  ELSE LET e == RLog2(d) IN RLeq(RAbs(RSub(d, q)), RPow2(e - bits + 1))
ConvSeqOK(qs, ds, bits) == Len(qs) = Len(ds) /\ \A k \in 1..Len(qs) : ConvOK(qs[k], ds[k], bits)
ConvDefects(L, par, ev, bits) ==
  IF ev.ok # 1 THEN {"copy failed"}
  ELSE IF ev.nrows # L.m \/ ev.ncols # L.n THEN {"dimensions"}
  ELSE (IF ev.objsense = (IF L.max THEN -1 ELSE 1) THEN {} ELSE {"objective sense"})
       \cup (IF ConvSeqOK(L.obj, ev.obj, bits) THEN {} ELSE {"objective"})
       \cup (IF ConvSeqOK(L.lo, ev.lo, bits) /\ ConvSeqOK(L.up, ev.up, bits) THEN {} ELSE {"bounds"})
       \cup (IF ConvSeqOK(L.rhs, ev.rhs, bits) THEN {} ELSE {"rhs"})
       \cup (IF ev.sense = L.sense THEN {} ELSE {"senses"})
       \cup (IF ev.rv_rows = 0 /\ \A i \in 1..L.m :
                   /\ Len(ev.rows[i]) = Len(L.A[i])
                   /\ \A k \in 1..Len(L.A[i]) : \E e \in SetOfSeq(ev.rows[i]) : e.j + 1 = L.A[i][k].j /\ ConvOK(L.A[i][k].v, e.v, bits)
             THEN {} ELSE {"coefficients / structure"})
       \cup (IF \A i \in 1..L.m : L.sense[i] = "R" => (Len(ev.range) = L.m /\ ConvOK(L.range[i], ev.range[i], bits)) THEN {} ELSE {"ranges"})
       \cup (IF ev.par.ppricing = par.ppricing /\ ev.par.dpricing = par.dpricing /\ ev.par.display = par.display /\ ev.par.scaling = par.scaling
                /\ ev.par.maxiter = par.maxiter THEN {} ELSE {"parameters"})

Step(ev) ==
  LET c == ev.call
      h == IF "h" \in DOMAIN ev THEN ev.h ELSE "h0"
      s == st[h]
      live == s.live
      L == s.lp
      \* result record: [s |-> new state of handle h, v |-> verdicts]
      res ==
        CASE c = "create" ->
               IF ev.ok = 1 THEN R(NewH(EmptyLP(ev.objsense = -1), ObjSenseValid(ev.objsense)), {}) ELSE R(Dead, {})
          [] c = "load" ->
               IF LoadValid(ev) THEN (IF ev.ok = 1 THEN R(NewH(LoadLP(ev), TRUE), {}) ELSE R(Dead, {V(ev, {"C06"}, "valid load rejected")}))
               ELSE (IF ev.ok = 1 THEN R(NewH(EmptyLP(FALSE), FALSE), {V(ev, {"C07"}, "invalid load accepted")}) ELSE R(Dead, {}))
          [] c = "free" -> R(Dead, {})
          [] c = "read_prob" -> IF ev.ok = 1 THEN R(NewH(EmptyLP(FALSE), FALSE), {}) ELSE R(Dead, {})
          [] ~live -> R(s, {})
          [] c = "dump" ->
               IF ~s.sync THEN
                 \* first view of a problem the specification did not build (read from a file): it must at least be internally
                 \* consistent - all query calls succeed, the two row views agree, the column view is the transpose, names are unique
                 LET ok == DumpOK(ev)
                     P == IF ok THEN LPFromDump(ev) ELSE EmptyLP(FALSE)
                     d == IF ~ok THEN {"a query call failed on a problem returned by the reader"}
                          ELSE (DumpDiff(P, ev) \ {"nzcount"}) \cup StoreDiff(P, ev)
                 IN R([s EXCEPT !.sync = ok /\ DataFinite(ev), !.lp = IF ok THEN P ELSE @, !.pend = {}, !.par = ev.par],
                      IF d = {} THEN {} ELSE {V(ev, {"C11"}, "the problem delivered by the reader is internally inconsistent: " \o ToString(d))})
               ELSE LET d == DumpDiff(L, ev) \cup ParDiff(s.par, ev) \cup StoreDiff(L, ev)
                        \* no edit on this handle since the last dump and still different: another handle's call changed it (C16)
                        tags == IF s.pend # {} THEN s.pend ELSE IF s.dirty THEN {"C06"} ELSE {"C06", "C16"}
                    IN IF d = {} THEN R([s EXCEPT !.pend = {}, !.dirty = FALSE, !.lp.rname = IF L.m = 0 THEN <<>> ELSE ev.rnames2, !.lp.cname = IF L.n = 0 THEN <<>> ELSE ev.cnames2], {})
                       ELSE R([s EXCEPT !.pend = {}, !.dirty = FALSE, !.lp = IF DumpOK(ev) THEN LPFromDump(ev) ELSE @, !.par = ev.par, !.sync = DumpOK(ev), !.truth = [none |-> TRUE]],
                              {V(ev, tags, "query results differ from the reference model: " \o ToString(d))})
          [] c = "new_col" -> Edit(s, ev, AddColValid(L, <<>>, ev.name), FALSE, AddCol(L, <<>>, ev.obj, ev.lo, ev.up, ev.name))
          [] c = "add_col" -> Edit(s, ev, AddColValid(L, ev.ent, ev.name), EntValid(ev.ent, L.m) /\ AddColUnspec(L, ev.ent),
                                   AddCol(L, ev.ent, ev.obj, ev.lo, ev.up, ev.name))
          [] c = "add_cols" -> Edit(s, ev, ColsValid(L, ev.cols), ColsValid(L, ev.cols) /\ \E k \in 1..Len(ev.cols) : ~EntNoDup(ev.cols[k].ent),
                                    AddColsSeq(L, ev.cols, 1))
          [] c = "new_row" -> Edit(s, ev, AddRowValid(L, <<>>, ev.sense, ev.name), FALSE, AddRow(L, <<>>, ev.rhs, ev.sense, "0", ev.name))
          [] c = "add_row" -> Edit(s, ev, AddRowValid(L, ev.ent, ev.sense, ev.name), EntValid(ev.ent, L.n) /\ AddRowUnspec(L, ev.ent),
                                   AddRow(L, ev.ent, ev.rhs, ev.sense, "0", ev.name))
          [] c = "add_ranged_row" -> Edit(s, ev, AddRowValid(L, ev.ent, ev.sense, ev.name), EntValid(ev.ent, L.n) /\ AddRowUnspec(L, ev.ent),
                                   AddRow(L, ev.ent, ev.rhs, ev.sense, ev.range, ev.name))
          [] c = "add_rows" -> Edit(s, ev, RowsValid(L, ev.rows), RowsValid(L, ev.rows) /\ \E k \in 1..Len(ev.rows) : ~EntNoDup(ev.rows[k].ent),
                                    AddRowsSeq(L, ev.rows, 1, FALSE))
          [] c = "add_ranged_rows" -> Edit(s, ev, RowsValid(L, ev.rows), RowsValid(L, ev.rows) /\ \E k \in 1..Len(ev.rows) : ~EntNoDup(ev.rows[k].ent),
                                    AddRowsSeq(L, ev.rows, 1, TRUE))
          [] c = "delete_row" -> Edit(s, ev, RowIdxValid(L, ev.i), FALSE, DelRows(L, {ev.i}))
          [] c = "delete_col" -> Edit(s, ev, ColIdxValid(L, ev.i), FALSE, DelCols(L, {ev.i}))
          [] c = "delete_rows" -> IF ev.num <= 0 THEN Edit(s, ev, TRUE, FALSE, L)
                                  ELSE Edit(s, ev, DelRowsValid(L, SetOfSeq(ev.list)), ~NoDup(ev.list), DelRows(L, SetOfSeq(ev.list)))
          [] c = "delete_cols" -> IF ev.num <= 0 THEN Edit(s, ev, TRUE, FALSE, L)
                                  ELSE Edit(s, ev, DelColsValid(L, SetOfSeq(ev.list)), ~NoDup(ev.list), DelCols(L, SetOfSeq(ev.list)))
          [] c = "delete_setrows" -> Edit(s, ev, TRUE, FALSE, DelRows(L, FlagsToSet(ev.flags)))
          [] c = "delete_setcols" -> Edit(s, ev, TRUE, FALSE, DelCols(L, FlagsToSet(ev.flags)))
          [] c = "delete_named_row" -> Edit(s, ev, ev.name # "" /\ ev.name \in SetOfSeq(L.rname), UNKNOWN \in SetOfSeq(L.rname),
                                            DelRows(L, NamesToIdx(L.rname, <<ev.name>>)))
          [] c = "delete_named_column" -> Edit(s, ev, ev.name # "" /\ ev.name \in SetOfSeq(L.cname), UNKNOWN \in SetOfSeq(L.cname),
                                            DelCols(L, NamesToIdx(L.cname, <<ev.name>>)))
          [] c = "delete_named_rows" -> IF ev.num <= 0 THEN Edit(s, ev, TRUE, FALSE, L)
                                        ELSE Edit(s, ev, SetOfSeq(ev.names) \subseteq (SetOfSeq(L.rname) \ {""}), UNKNOWN \in SetOfSeq(L.rname) \/ ~NoDup(ev.names),
                                            DelRows(L, NamesToIdx(L.rname, ev.names)))
          [] c = "delete_named_columns" -> IF ev.num <= 0 THEN Edit(s, ev, TRUE, FALSE, L)
                                        ELSE Edit(s, ev, SetOfSeq(ev.names) \subseteq (SetOfSeq(L.cname) \ {""}), UNKNOWN \in SetOfSeq(L.cname) \/ ~NoDup(ev.names),
                                            DelCols(L, NamesToIdx(L.cname, ev.names)))
          [] c = "change_coef" -> Edit(s, ev, RowIdxValid(L, ev.i) /\ ColIdxValid(L, ev.j), FALSE, ChgCoef(L, ev.i, ev.j, ev.v))
          [] c = "change_objcoef" -> Edit(s, ev, ColIdxValid(L, ev.i), FALSE, ChgObj(L, ev.i, ev.v))
          [] c = "change_rhscoef" -> Edit(s, ev, RowIdxValid(L, ev.i), FALSE, ChgRhs(L, ev.i, ev.v))
          [] c = "change_range" -> Edit(s, ev, ChgRangeValid(L, ev.i), FALSE, ChgRange(L, ev.i, ev.v))
          [] c = "change_sense" -> Edit(s, ev, RowIdxValid(L, ev.i) /\ ev.sense \in Senses, FALSE, ChgSense(L, ev.i, ev.sense))
          [] c = "change_senses" -> IF ev.num <= 0 THEN Edit(s, ev, TRUE, FALSE, L)
                                    ELSE Edit(s, ev, \A k \in 1..Len(ev.list) : RowIdxValid(L, ev.list[k]) /\ ev.senses[k] \in Senses, FALSE,
                                        ChgSenses(L, ev.list, ev.senses, 1))
          [] c = "change_bound" -> Edit(s, ev, ColIdxValid(L, ev.j) /\ BoundSelValid(ev.lu), FALSE, ChgBound(L, ev.j, ev.lu, ev.v))
          [] c = "change_bounds" -> IF ev.num <= 0 THEN Edit(s, ev, TRUE, FALSE, L)
                                    ELSE Edit(s, ev, \A k \in 1..Len(ev.list) : ColIdxValid(L, ev.list[k]) /\ BoundSelValid(ev.lu[k]), FALSE,
                                        ChgBounds(L, ev.list, ev.lu, ev.vals, 1))
          [] c = "change_objsense" -> Edit(s, ev, ObjSenseValid(ev.objsense), FALSE, ChgObjSense(L, ev.objsense))
          [] c = "set_param" ->
               IF ParamValid(ev.which, ev.val)
               THEN (IF ev.rval = 0 THEN R([Mutated(s) EXCEPT !.par = ParamSet(@, ev.which, ev.val), !.limits = @ \/ ev.which = 5], {})
                     ELSE R(Failed(s, "C06"), {V(ev, {"C06"}, "valid parameter rejected")}))
               ELSE (IF ev.rval # 0 THEN R(Failed(s, "C07"), {}) ELSE R(Unsync(s), {V(ev, {"C07"}, "illegal parameter accepted")}))
          [] c = "set_param_q" -> IF ev.rval = 0
                                   THEN R([Mutated(s) EXCEPT !.limits = TRUE,
                                                             !.par = IF ev.which = 8 /\ "objulim" \in DOMAIN @ THEN [@ EXCEPT !.objulim = ev.val]
                                                                     ELSE IF ev.which = 9 /\ "objllim" \in DOMAIN @ THEN [@ EXCEPT !.objllim = ev.val] ELSE @], {})
                                   ELSE R(Failed(s, "C07"), {})
          [] c = "get_param" ->
               IF ~s.sync THEN R(s, {})
               ELSE IF ev.which \in {0, 2, 4, 5, 7}
               THEN (IF ev.rval = 0 /\ ev.val = (CASE ev.which = 0 -> s.par.ppricing [] ev.which = 2 -> s.par.dpricing [] ev.which = 4 -> s.par.display
                                                   [] ev.which = 5 -> s.par.maxiter [] OTHER -> s.par.scaling)
                     THEN R(s, {}) ELSE R(s, {V(ev, {"C06"}, "get_param differs from the parameters set")}))
               ELSE (IF ev.rval # 0 THEN R(Failed(s, "C07"), {}) ELSE R(s, {V(ev, {"C07"}, "unknown parameter accepted")}))
          [] c = "get_coef" ->
               IF ~s.sync THEN R(s, {})
               ELSE IF RowIdxValid(L, ev.i) /\ ColIdxValid(L, ev.j)
               THEN (IF ev.rval = 0 /\ ev.v = RowGet(L.A[ev.i + 1], ev.j + 1) THEN R(s, {}) ELSE R(s, {V(ev, {"C06"}, "get_coef differs from the reference model")}))
               ELSE (IF ev.rval # 0 THEN R(Failed(s, "C07"), {}) ELSE R(Failed(s, "C07"), {V(ev, {"C07"}, "out-of-range index accepted")}))
          [] c = "get_bound" ->
               IF ~s.sync THEN R(s, {})
               ELSE IF ColIdxValid(L, ev.j) /\ ev.lu \in {"L", "U"}
               THEN (IF ev.rval = 0 /\ ev.v = (IF ev.lu = "L" THEN L.lo[ev.j + 1] ELSE L.up[ev.j + 1]) THEN R(s, {}) ELSE R(s, {V(ev, {"C06"}, "get_bound differs from the reference model")}))
               ELSE (IF ev.rval # 0 THEN R(Failed(s, "C07"), {}) ELSE R(Failed(s, "C07"), {V(ev, {"C07"}, "invalid index/selector accepted")}))
          [] c \in {"get_row_index", "get_column_index"} ->
               IF ~s.sync THEN R(s, {})
               ELSE LET names == IF c = "get_row_index" THEN L.rname ELSE L.cname IN
                    IF UNKNOWN \in SetOfSeq(names) THEN R(s, {})
                    ELSE IF ev.name \in SetOfSeq(names)
                    THEN (IF ev.rval = 0 /\ names[ev.idx + 1] = ev.name THEN R(s, {}) ELSE R(s, {V(ev, {"C06"}, "name lookup differs from the reference model")}))
                    \* named deviation: the lookups signal "no such name" through the sentinel index -1 (rval may be 0)
                    ELSE (IF ev.rval # 0 \/ ev.idx = -1 THEN R(Failed(s, "C07"), {}) ELSE R(Failed(s, "C07"), {V(ev, {"C07"}, "unknown name accepted")}))
          [] c \in {"get_obj_list", "get_bounds_list"} ->
               IF ~s.sync \/ ev.num <= 0 THEN R(s, {})
               ELSE IF \A k \in 1..Len(ev.list) : ColIdxValid(L, ev.list[k])
               THEN (IF ev.rval = 0 /\ (IF c = "get_obj_list" THEN ev.a = [k \in 1..Len(ev.list) |-> L.obj[ev.list[k] + 1]]
                                        ELSE ev.a = [k \in 1..Len(ev.list) |-> L.lo[ev.list[k] + 1]] /\ ev.b = [k \in 1..Len(ev.list) |-> L.up[ev.list[k] + 1]])
                     THEN R(s, {}) ELSE R(s, {V(ev, {"C06"}, "list getter differs from the reference model")}))
               ELSE (IF ev.rval # 0 THEN R(Failed(s, "C07"), {}) ELSE R(Failed(s, "C07"), {V(ev, {"C07"}, "out-of-range index in list accepted")}))
          [] c \in {"get_rows_list", "get_ranged_rows_list"} ->
               IF ~s.sync \/ ev.num <= 0 THEN R(s, {})
               ELSE IF \A k \in 1..Len(ev.list) : RowIdxValid(L, ev.list[k])
               THEN (IF ev.rval = 0 /\ \A k \in 1..Len(ev.list) : LET i == ev.list[k] + 1 IN
                          /\ Pairs1(ev.vecs[k]) = RowPairs(L.A[i]) /\ Len(ev.vecs[k]) = Len(L.A[i])
                          /\ ev.rhs[k] = L.rhs[i] /\ ev.sense[k] = L.sense[i]
                          /\ (L.rname[i] # UNKNOWN => ev.names[k] = L.rname[i])
                          /\ (c = "get_ranged_rows_list" /\ L.sense[i] = "R" => ev.range[k] = L.range[i])
                     THEN R(s, {}) ELSE R(s, {V(ev, {"C06"}, "row list getter differs from the reference model")}))
               ELSE (IF ev.rval # 0 THEN R(Failed(s, "C07"), {}) ELSE R(Failed(s, "C07"), {V(ev, {"C07"}, "out-of-range row index in list accepted")}))
          [] c = "get_columns_list" ->
               IF ~s.sync \/ ev.num <= 0 THEN R(s, {})
               ELSE IF \A k \in 1..Len(ev.list) : ColIdxValid(L, ev.list[k])
               THEN (IF ev.rval = 0 /\ \A k \in 1..Len(ev.list) : LET j == ev.list[k] + 1 IN
                          /\ Pairs1(ev.vecs[k]) = ColPairs(L, j)
                          /\ ev.obj[k] = L.obj[j] /\ ev.lo[k] = L.lo[j] /\ ev.up[k] = L.up[j]
                          /\ (L.cname[j] # UNKNOWN => ev.names[k] = L.cname[j])
                     THEN R(s, {}) ELSE R(s, {V(ev, {"C06"}, "column list getter differs from the reference model")}))
               ELSE (IF ev.rval # 0 THEN R(Failed(s, "C07"), {}) ELSE R(Failed(s, "C07"), {V(ev, {"C07"}, "out-of-range column index in list accepted")}))
          [] c = "witness" ->
               \* untrusted witness of the LP's true status, verified here against the specification's LP
               IF ~s.sync THEN R(s, {})
               ELSE IF (ev.kind = "opt" /\ (Len(ev.x) # L.n \/ Len(ev.pi) # L.m)) \/ (ev.kind = "inf" /\ Len(ev.y) # L.m) \/ (ev.kind = "unb" /\ (Len(ev.x) # L.n \/ Len(ev.d) # L.n))
                    THEN R(s, {V(ev, {"INCONCLUSIVE"}, "witness has the wrong dimensions")})
               ELSE IF ev.kind = "opt" /\ S!OptimalPair(L, ev.x, ev.pi) THEN R([s EXCEPT !.truth = [status |-> 1, val |-> S!ObjVal(L, ev.x)]], {})
               ELSE IF ev.kind = "inf" /\ S!FarkasCert(L, ev.y) THEN R([s EXCEPT !.truth = [status |-> 2, val |-> "0"]], {})
               ELSE IF ev.kind = "unb" /\ S!UnboundedCert(L, ev.x, ev.d) THEN R([s EXCEPT !.truth = [status |-> 3, val |-> "0"]], {})
               ELSE R(s, {V(ev, {"INCONCLUSIVE"}, "witness does not verify")})
          [] c \in {"exact", "opt_primal", "opt_dual"} ->
               IF ~s.sync THEN R(Mutated(s), {})
               ELSE
               LET wf == S!WellFormed(L)
                   hasxy == c = "exact" /\ ev.wantxy = 1
                   truth == IF "none" \in DOMAIN s.truth THEN [status |-> 0, val |-> "0"] ELSE s.truth
                   vOpt == IF ev.rval = 0 /\ ev.status = 1 /\ hasxy
                           THEN (LET xs == SubSeq(ev.x, 1, L.n)
                                     ds == S!OptimalCertDefects(L, [val |-> S!ObjVal(L, xs), x |-> xs, pi |-> ev.y,
                                                slack |-> [i \in 1..L.m |-> S!SlackOf(L, xs, i)], rc |-> S!RcOf(L, ev.y)])
                                         \cup (IF \A i \in 1..L.m : ev.x[L.n + i] = S!SlackOf(L, xs, i) THEN {} ELSE {[c |-> "slack part of x", k |-> 0]})
                                 IN IF ds = {} THEN {} ELSE {V(ev, {"C01"}, "OPTIMAL but (x,y) is not an exact optimality certificate: " \o ToString(DefectText(ds)))})
                           ELSE {}
                   vInf == IF ev.rval = 0 /\ ev.status = 2 /\ hasxy
                           THEN (LET ds == S!FarkasDefects(L, ev.y) IN
                                 IF ds = {} THEN {} ELSE {V(ev, {"C02"}, "INFEASIBLE but y is not an exact Farkas certificate: " \o ToString(DefectText(ds)))})
                           ELSE {}
                   vTruth == IF truth.status = 0 THEN {}
                             ELSE (IF ev.rval = 0 /\ Definitive(ev.status) /\ ev.status # truth.status
                                   THEN {V(ev, IF c = "exact" THEN {"C03"} ELSE {"C04"}, "status " \o ToString(ev.status) \o " differs from the verified truth " \o ToString(truth.status))} ELSE {})
                                  \cup (IF ev.rval = 0 /\ ev.status = 1 /\ truth.status = 1 /\ hasxy /\ S!ObjVal(L, SubSeq(ev.x, 1, L.n)) # truth.val
                                   THEN {V(ev, {"C03"}, "optimal value differs from the verified optimum")} ELSE {})
                   vDef == IF c = "exact" /\ wf /\ ~s.limits /\ ~(ev.rval = 0 /\ Definitive(ev.status))
                           THEN {V(ev, {"C03"}, "exact solver gave no definitive status on a well-formed LP (rval " \o ToString(ev.rval) \o ", status " \o ToString(ev.status) \o ", rows " \o ToString(L.m) \o ", cols " \o ToString(L.n) \o ")")}
                           ELSE {}
                   \* a basis handed back with OPTIMAL: one basic variable per row, nonbasic variables at the bound their status names
                   vBas == IF c = "exact" /\ ev.rval = 0 /\ ev.status = 1 /\ hasxy /\ ev.b # "-" /\ "cstat" \in DOMAIN ev.bout /\ "rstat" \in DOMAIN ev.bout
                           THEN (IF ~S!BasisShapeOK(L, ev.bout.cstat, ev.bout.rstat)
                                 THEN {V(ev, {"C12"}, "basis returned with OPTIMAL does not have one basic variable per row / legal statuses")}
                                 ELSE LET ds == S!NonbasicAtStatus(L, ev.bout.cstat, ev.bout.rstat, ev.x) IN
                                      IF ds = {} THEN {} ELSE {V(ev, {"C12"}, "basis returned with OPTIMAL does not describe the returned solution: " \o ToString(DefectText(ds)))})
                           ELSE {}
                   \* the events reported by the guarded hook must be a path of the ladder machine (ExactDriver.tla)
                   vLadder == IF c = "exact" /\ "hook" \in DOMAIN ev /\ ev.hook_over = 0
                              THEN (LET run == ED!Run(ev.hook) IN
                                    IF run.s = ED!Reject \/ run.s.pc # "done"
                                    THEN {V(ev, {"C01", "C02", "C03"}, "hook events of QSexact_solver are not a path of the ladder machine (stopped before hook event " \o ToString(run.k) \o ")")}
                                    ELSE (IF ev.rval = 0 /\ ev.status \in {1, 2} /\ ~run.s.certified
                                          THEN {V(ev, IF ev.status = 1 THEN {"C01"} ELSE {"C02"}, "OPTIMAL/INFEASIBLE returned without a passing exact test (ladder exhausted)")} ELSE {})
                                         \cup (IF ev.hook[Len(ev.hook)].a # ev.status \/ ev.hook[Len(ev.hook)].b # ev.rval
                                               THEN {V(ev, {"C03"}, "returned status/rval differ from the driver's return event")} ELSE {}))
                              ELSE {}
               IN R([Mutated(s) EXCEPT !.edited = FALSE,
                                       !.lastany = [rval |-> ev.rval, status |-> ev.status, call |-> c],
                                       !.lastres = IF ev.rval = 0 /\ Definitive(ev.status)
                                                   THEN [status |-> ev.status, call |-> c, val |-> IF ev.status = 1 /\ hasxy THEN S!ObjVal(L, SubSeq(ev.x, 1, L.n)) ELSE "?"]
                                                   ELSE [none |-> TRUE]],
                    vOpt \cup vInf \cup vTruth \cup vDef \cup vLadder \cup vBas)
          [] c = "sol" ->
               IF ~s.sync THEN R(s, {})
               ELSE
               LET avail == SolAvail(ev)
                   tagsStale == IF s.edited THEN {"C05"} ELSE {"C01"}
                   vCert == IF avail THEN (LET ds == S!OptimalCertDefects(L, Sol5(ev)) IN
                                           IF ds = {} THEN {} ELSE {V(ev, tagsStale, "accessors return a solution that is not exactly optimal for the current LP: " \o ToString(DefectText(ds)))})
                            ELSE {}
                   vGs == IF avail /\ ev.rv_gs = 0 /\ (ev.gs.val # ev.objval \/ ev.gs.x # ev.x \/ ev.gs.pi # ev.pi \/ ev.gs.slack # ev.slack \/ ev.gs.rc # ev.rc)
                          THEN {V(ev, {"C01"}, "get_solution differs from the array accessors")} ELSE {}
                   vNamed == IF avail /\ L.n > 0 /\ L.m > 0 /\ "rv_nx" \in DOMAIN ev /\ "rv_npi" \in DOMAIN ev
                                /\ ~(ev.rv_nx = 0 /\ ev.nx = ev.x[L.n] /\ ev.rv_nrc = 0 /\ ev.nrc = ev.rc[L.n] /\ ev.rv_npi = 0 /\ ev.npi = ev.pi[L.m] /\ ev.rv_nsl = 0 /\ ev.nsl = ev.slack[L.m])
                             THEN {V(ev, {"C01"}, "named accessors differ from the array accessors")} ELSE {}
                   obsNow == [avail |-> avail, status |-> ev.status,
                              sol |-> IF avail THEN Sol5(ev) ELSE <<>>,
                              bas |-> IF "cstat" \in DOMAIN ev THEN <<ev.cstat, ev.rstat>> ELSE <<>>]
                   vObs == IF ~s.mut /\ "none" \notin DOMAIN s.obs /\ s.obs # obsNow
                           \* empty taint = no call at all on this handle since the observation: interference from another handle (C16)
                           THEN {V(ev, IF s.taint = {} THEN {"C06", "C16"} ELSE s.taint, "stored solution / basis / status changed although no call since the last observation was allowed to change them")}
                           ELSE {}
               IN R([s EXCEPT !.obs = obsNow, !.mut = FALSE, !.taint = {},
                               !.lastres = IF avail /\ ~s.edited THEN [status |-> 1, call |-> IF IsNone(s.lastres) THEN "sol" ELSE s.lastres.call, val |-> ev.objval] ELSE @],
                    vCert \cup vGs \cup vNamed \cup vObs)
          [] c = "get_infeas" ->
               IF ~s.sync \/ ev.rval # 0 THEN R(Touched(s, "C06"), {})
               ELSE LET ds == S!FarkasDefects(L, ev.y) IN
                    R(Touched(s, "C06"), IF ds = {} THEN {} ELSE {V(ev, {"C02"}, "infeasibility vector of the rational simplex is not an exact Farkas certificate: " \o ToString(DefectText(ds)))})
          [] c = "binv" ->
               IF ~s.sync \/ ev.rv_order # 0 THEN R(Touched(s, "C06"), {})
               ELSE LET ord == [k \in 1..L.m |-> ev.order[k] + 1]
                        okOrd == Len(ev.order) = L.m /\ (\A k \in 1..L.m : ord[k] \in 1..(L.n + L.m)) /\ NoDup(ev.order)
                        okBas == "cstat" \in DOMAIN ev =>
                                   {ord[k] : k \in 1..L.m} = {j \in 1..L.n : ev.cstat[j] = "1"} \cup {L.n + i : i \in {i \in 1..L.m : ev.rstat[i] = "1"}}
                        badInv == IF okOrd /\ ev.binv_fail = 0 THEN {k \in 1..L.m : ~S!InverseRowOK(L, ord, k, ev.binv[k])} ELSE {}
                        badTab == IF okOrd /\ ev.binv_fail = 0 /\ ev.tab_fail = 0 THEN {k \in 1..L.m : ~S!TableauRowOK(L, ev.binv[k], ev.tab[k])} ELSE {}
                    IN R(Touched(s, "C06"),
                         (IF okOrd THEN {} ELSE {V(ev, {"C13"}, "basis order is not a list of distinct column indices")})
                         \cup (IF okBas THEN {} ELSE {V(ev, {"C13"}, "basis order does not name the basic variables of the stored basis")})
                         \cup (IF ev.binv_fail = 0 /\ ev.tab_fail = 0 THEN {} ELSE {V(ev, {"C13"}, "a basis-inverse / tableau row query failed although the basis order is available")})
                         \cup (IF badInv = {} THEN {} ELSE {V(ev, {"C13"}, "row_i(B^-1) * B # e_i for rows " \o ToString(badInv))})
                         \cup (IF badTab = {} THEN {} ELSE {V(ev, {"C13"}, "tableau row # row_i(B^-1) * [A | logicals] for rows " \o ToString(badTab))}))
          [] c = "write_basis" -> R(Touched(s, "C14"), {})
          [] c \in {"write_prob"} -> R(Touched(s, "C08"), {})
          [] c \in {"get_basis", "get_basis_array", "binv_row", "tableau_row", "basis_order"} -> R(Touched(s, "C06"), {})
          [] c \in {"load_basis", "load_basis_array"} -> IF ev.rval = 0 THEN R(Mutated(s), {}) ELSE R(Failed(s, "C07"), {})
          [] c = "read_and_load_basis" ->
               \* a basis file the reader ACCEPTS must define a basis of the problem: one basic variable per row (C11: a returned basis is consistent)
               IF ev.rval # 0 THEN R(Failed(s, "C07"), {})
               ELSE R(Mutated(s), IF s.sync /\ "cstat" \in DOMAIN ev /\ "rstat" \in DOMAIN ev /\ ~S!BasisShapeOK(L, ev.cstat, ev.rstat)
                                  THEN {V(ev, {"C11", "C14"}, "the basis accepted from a file does not have exactly one basic variable per row: " \o ToString(<<ev.cstat, ev.rstat>>))} ELSE {})
          [] c = "read_basis" ->
               R(s, IF s.sync /\ ev.ok = 1 /\ "cstat" \in DOMAIN ev.bas /\ "rstat" \in DOMAIN ev.bas /\ ~S!BasisShapeOK(L, ev.bas.cstat, ev.bas.rstat)
                    THEN {V(ev, {"C11", "C14"}, "the basis read from a file does not have exactly one basic variable per row: " \o ToString(<<ev.bas.cstat, ev.bas.rstat>>))} ELSE {})
          [] c \in {"basis_optimalstatus", "basis_dualstatus", "verify"} ->
               IF ~s.sync \/ IsNone(slot[ev.b]) THEN R(Mutated(s), {})
               ELSE
               LET B == slot[ev.b]
                   shapeOK == S!BasisShapeOK(L, B.cstat, B.rstat)
                   optHere == ~IsNone(B.opt) /\ B.opt.c = Content(L)
                   solHere == ~IsNone(B.bsol) /\ B.bsol.c = Content(L) /\ B.bsol.sing = 0
                   pf == S!BasisPrimalFeasible(L, B.bsol.xs)
                   df == S!BasisDualFeasible(L, B.cstat, B.rstat, B.bsol.pi)
                   dobjTrue == LET v == S!ObjVal(L, SubSeq(B.bsol.xs, 1, L.n)) IN IF L.max THEN RNeg(v) ELSE v
                   want == IF c = "basis_optimalstatus" THEN pf /\ df ELSE df
                   \* QSexact_verify with the pre-step first solves the LP warm-started from the basis: it may answer 1 with the
                   \* optimal value of the LP (in the user's sign) instead of the dual bound of the given basis - documented behaviour
                   pre == c = "verify" /\ ev.pre = 1
                   optKnown == {a \in ans : a.c = Content(L) /\ a.status = 1 /\ a.val # "?"}
                   \* ... or, when that solve is not certified, the dual bound of the basis the float solve ended in: any valid dual bound
                   preOK == pre /\ ev.rval = 0 /\ ev.result = 1
                            /\ (optKnown = {} \/ \E a \in optKnown : ev.dobjval = a.val \/ RLeq(ev.dobjval, IF L.max THEN RNeg(a.val) ELSE a.val))
               IN IF ~shapeOK THEN R(Mutated(s), {})      \* malformed basis: C07's business
                  ELSE R(Mutated(s),
                    (IF optHere /\ ~(ev.rval = 0 /\ ev.result = 1)
                     THEN {V(ev, IF "props" \in DOMAIN B.opt THEN B.opt.props ELSE {"C12"}, "the basis returned with OPTIMAL is not confirmed by " \o c \o " (rval " \o ToString(ev.rval) \o ", result " \o ToString(ev.result) \o ")")} ELSE {})
                    \cup (IF optHere /\ c # "basis_optimalstatus" /\ ev.rval = 0 /\ ev.result = 1 /\ B.opt.val # "?"
                             /\ ev.dobjval # (IF L.max THEN RNeg(B.opt.val) ELSE B.opt.val)
                             \* with the pre-step the float solve may end in another dual feasible basis: its dual objective is a valid bound, not necessarily the optimum
                             /\ ~(pre /\ (ev.dobjval = B.opt.val \/ RLeq(ev.dobjval, IF L.max THEN RNeg(B.opt.val) ELSE B.opt.val)))
                     THEN {V(ev, {"C12"}, "dual bound of the optimal basis differs from the optimal value")} ELSE {})
                    \cup (IF solHere /\ ev.rval # 0
                     THEN {V(ev, {"C12"}, "verdict function failed on a non-singular basis")} ELSE {})
                    \* (with the pre-solve step QSexact_verify speaks about the basis the warm-started solve ENDS in, which the trace does not show:
                    \*  only a positive answer can be checked then - it must carry a valid dual bound, preOK)
                    \cup (IF solHere /\ ev.rval = 0 /\ (ev.result = 1) # want /\ ~preOK /\ ~(pre /\ ev.result = 0)
                     THEN {V(ev, {"C12"}, c \o " answers " \o ToString(ev.result) \o " but the exact basic solution is " \o (IF pf THEN "primal feasible" ELSE "primal infeasible") \o " / " \o (IF df THEN "dual feasible" ELSE "dual infeasible"))} ELSE {})
                    \cup (IF solHere /\ c # "basis_optimalstatus" /\ ev.rval = 0 /\ ev.result = 1 /\ df /\ ev.dobjval # dobjTrue /\ ~preOK
                     THEN {V(ev, {"C12"}, "reported dual bound " \o ev.dobjval \o " is not the dual objective of the basis " \o dobjTrue)} ELSE {}))
          [] c = "copy_conv" ->
               IF ~s.sync THEN R(Touched(s, "C06"), {})
               ELSE LET d == ConvDefects(L, s.par, ev, IF ev.type = "dbl" THEN 53 ELSE ev.prec) IN
                    R(Touched(s, "C06"), IF d = {} THEN {} ELSE {V(ev, {"C16"}, "reduced-precision copy (" \o ev.type \o ") differs from the rational problem beyond conversion error: " \o ToString(d))})
          [] c \in {"pivotin_row", "pivotin_col", "compute_row_norms"} -> R(Mutated(s), {})
          [] OTHER -> R(s, {})
  IN res

\* events that concern a second handle / the slots / the process
StepCopy(ev) ==
  LET src == st[ev.h] IN
  IF ~src.live THEN [h2 |-> Dead, v |-> {}]
  ELSE IF ev.ok = 1 THEN [h2 |-> [NewH(src.lp, src.sync) EXCEPT !.par = src.par, !.limits = src.limits, !.pend = {"C16"}], v |-> {}]
  ELSE [h2 |-> Dead, v |-> {V(ev, {"C16"}, "copy failed")}]

Crash(ev) == {V(ev, SetOfSeq(ev.props), "call did not return: " \o ev.why)}

\* C20: with a handler installed no byte may reach fd 1 / fd 2
Quiet(ev) == (IF "hon" \in DOMAIN ev /\ ev.hon = 1 /\ (ev.out # 0 \/ ev.err # 0)
              THEN {V(ev, {"C20"}, "bytes written to stdout/stderr with a log handler installed: out=" \o ToString(ev.out) \o " err=" \o ToString(ev.err))}
              ELSE {})
             \cup (IF "hon" \in DOMAIN ev /\ ev.hon = 1 /\ ev.msgs = 0 /\ ev.call \in {"read_prob", "read_basis", "write_prob"} /\ "ok" \in DOMAIN ev /\ ev.ok = 0
              THEN {V(ev, {"C20"}, "a failing file call delivered no message to the installed log handler")} ELSE {})

Next ==
  /\ l <= Len(Tr)
  /\ l' = l + 1
  /\ LET ev == IF "nullh" \in DOMAIN Tr[l] THEN [n |-> Tr[l].n, call |-> "skipped", nullh |-> 1] ELSE Tr[l] IN
       /\ IF ev.call = "scenario" THEN
             /\ st' = [h \in Handles |-> Dead] /\ slot' = [b \in Slots |-> NoBas] /\ ans' = {} /\ glob' = [handler |-> FALSE, prec |-> 128, files |-> {}]
             /\ viol' = viol
          ELSE IF ev.call = "CRASH" THEN
             /\ st' = [h \in Handles |-> Dead] /\ slot' = [b \in Slots |-> NoBas] /\ UNCHANGED <<ans, glob>>
             /\ viol' = viol \cup Crash(ev)
          ELSE IF "nullh" \in DOMAIN ev THEN
             \* the driver did not make this call: its handle does not exist (creation failed earlier)
             /\ viol' = viol /\ UNCHANGED <<st, slot, ans, glob>>
          ELSE IF ev.call = "copy" THEN
             LET r == StepCopy(ev) IN
             /\ st' = [st EXCEPT ![ev.h2] = r.h2] /\ viol' = viol \cup r.v \cup Quiet(ev) /\ UNCHANGED <<slot, ans, glob>>
          ELSE IF ev.call = "handler" THEN
             /\ glob' = [glob EXCEPT !.handler = (ev.mode = "on")] /\ UNCHANGED <<st, slot, ans, viol>>
          ELSE IF ev.call = "restart" THEN
             \* QSexactClear + QSexactStart: every problem and basis is gone; the handler the host registered stays (LogChan.tla: process-wide)
             /\ st' = [h \in Handles |-> Dead] /\ slot' = [b \in Slots |-> NoBas] /\ ans' = {} /\ glob' = [glob EXCEPT !.prec = 128]
             /\ viol' = viol \cup Quiet(ev)
          ELSE IF ev.call = "precision" THEN
             /\ glob' = [glob EXCEPT !.prec = ev.bits] /\ UNCHANGED <<st, slot, ans, viol>>
          ELSE IF ev.call = "bsol" THEN
             \* untrusted witness of the basic solution of slot b for the LP of handle h: verified here
             LET s0 == st[ev.h]  B == slot[ev.b]
                 ok == s0.live /\ s0.sync /\ ~IsNone(B) /\ S!BasisShapeOK(s0.lp, B.cstat, B.rstat)
                 good == ok /\ (IF ev.sing = 1 THEN S!BasisSingularWitness(s0.lp, B.cstat, B.rstat, ev.v)
                                 ELSE S!BasicSolutionDefects(s0.lp, B.cstat, B.rstat, ev.xs, ev.pi) = {})
             IN /\ slot' = IF good THEN [slot EXCEPT ![ev.b].bsol = [c |-> Content(s0.lp), sing |-> ev.sing, xs |-> IF ev.sing = 1 THEN <<>> ELSE ev.xs, pi |-> IF ev.sing = 1 THEN <<>> ELSE ev.pi]] ELSE slot
                /\ viol' = viol \cup (IF good \/ ~ok THEN {} ELSE {V(ev, {"INCONCLUSIVE"}, "basic-solution witness does not verify")})
                /\ UNCHANGED <<st, ans, glob>>
          ELSE IF ev.call = "basis_file" THEN
             \* the lines the library wrote for the basis in slot b (or the problem's own basis): must be BasisFile!Write
             LET s0 == st[ev.h]
                 B == IF ev.b # "-" THEN slot[ev.b]
                      ELSE IF s0.live /\ "bas" \in DOMAIN s0.obs /\ s0.obs.bas # <<>> /\ ~s0.mut THEN [cstat |-> s0.obs.bas[1], rstat |-> s0.obs.bas[2]] ELSE NoneR
                 known == s0.live /\ s0.sync /\ ~IsNone(B) /\ UNKNOWN \notin SetOfSeq(s0.lp.cname) /\ UNKNOWN \notin SetOfSeq(s0.lp.rname)
                          /\ S!BasisShapeOK(s0.lp, B.cstat, B.rstat)
                 want == BF!Write(B.cstat, B.rstat, s0.lp.cname, s0.lp.rname)
             IN /\ viol' = viol \cup (IF known /\ ev.lines # want THEN {V(ev, {"C14"}, "basis file differs from the specified rendering of the basis: wrote " \o ToString(ev.lines) \o " expected " \o ToString(want))} ELSE {})
                /\ glob' = [glob EXCEPT !.files = {f \in @ : f.f # ev.file} \cup {[f |-> ev.file, lines |-> ev.lines]}]
                /\ UNCHANGED <<st, slot, ans>>
          ELSE IF ev.call = "lp_text" THEN
             \* the tokens of the LP-format file the library wrote for the problem of handle h: LPWrite!Write is the specification of the
             \* writer; a difference is specification drift (the property itself is decided by reading the file back: rt_check)
             LET s0 == st[ev.h]
                 known == s0.live /\ s0.sync /\ UNKNOWN \notin SetOfSeq(s0.lp.cname) /\ UNKNOWN \notin SetOfSeq(s0.lp.rname) /\ LPW!Writable(s0.lp)
                 want == LPW!Tokens(LPW!Write(s0.lp, ev.objname))
                 nd == IF known THEN {k \in 1..Len(want) : k > Len(ev.tokens) \/ ev.tokens[k] # want[k]} \cup (IF Len(ev.tokens) > Len(want) THEN {Len(want) + 1} ELSE {}) ELSE {}
                 k0 == CHOOSE k \in nd : \A q \in nd : k <= q
             IN /\ viol' = viol \cup (IF nd # {} THEN {V(ev, {"SPEC-DRIFT"}, "LP text differs from LPWrite!Write at token " \o ToString(k0) \o ": wrote "
                                        \o (IF k0 <= Len(ev.tokens) THEN ev.tokens[k0] ELSE "<end>") \o " expected " \o (IF k0 <= Len(want) THEN want[k0] ELSE "<end>"))} ELSE {})
                /\ UNCHANGED <<st, slot, ans, glob>>
          ELSE IF ev.call = "mps_text" THEN
             \* the content of the MPS file the library wrote for the problem of handle h against MPSWrite!Write (specification drift if different)
             LET s0 == st[ev.h]
                 known == s0.live /\ s0.sync /\ UNKNOWN \notin SetOfSeq(s0.lp.cname) /\ UNKNOWN \notin SetOfSeq(s0.lp.rname) /\ MPSW!Writable(s0.lp)
                 want == MPSW!Strs(MPSW!Write(s0.lp, ev.tree.objname))
                 diff == IF ~known THEN {} ELSE {f \in {"objsense", "rows", "cols", "rhs", "ranges", "bounds"} : ev.tree[f] # want[f]}
             IN /\ viol' = viol \cup (IF diff # {} THEN {V(ev, {"SPEC-DRIFT"}, "MPS text differs from MPSWrite!Write in " \o ToString(diff)
                                        \o (IF "cols" \in diff THEN "" ELSE ": wrote " \o ToString([f \in diff |-> ev.tree[f]]) \o " expected " \o ToString([f \in diff |-> want[f]])))} ELSE {})
                /\ UNCHANGED <<st, slot, ans, glob>>
          ELSE IF ev.call = "basis_rt" THEN
             LET s0 == st[ev.h]
                 d == IF s0.live /\ s0.sync /\ ~IsNone(slot[ev.b]) /\ S!BasisShapeOK(s0.lp, slot[ev.b].cstat, slot[ev.b].rstat)
                      THEN RoundTripBasisDefects(s0.lp, slot[ev.b], slot[ev.b2]) ELSE {} IN
             /\ viol' = viol \cup (IF d = {} THEN {} ELSE {V(ev, {"C14"}, "basis written to a file and read back differs: " \o ToString(d))})
             /\ UNCHANGED <<st, slot, ans, glob>>
          ELSE IF ev.call = "rt_check" THEN
             \* with a field "rename" (the objective name): the LP writer repairs names that are not valid in LP format; the problem read back is
             \* compared with the problem under the repaired names LPWrite!FixNames predicts.  A valid name must survive (property); repaired names
             \* that differ from the prediction are specification drift, not a violation (then only the eq_answer of the scenario decides)
             LET s1 == st[ev.h]  s2 == st[ev.h2]
                 both == s1.live /\ s1.sync /\ s2.live /\ s2.sync
                 ren == "rename" \in DOMAIN ev /\ both /\ UNKNOWN \notin SetOfSeq(s1.lp.cname) /\ UNKNOWN \notin SetOfSeq(s1.lp.rname)
                 L1 == IF ren THEN LPW!Renamed(s1.lp, ev.rename) ELSE s1.lp
                 named == {i \in RT!NonEmptyRows(s1.lp) : s1.lp.sense[i] # "R"}
                 validKept == ren => /\ \A j \in 1..s1.lp.n : LPW!ValidName(s1.lp.cname[j]) => s1.lp.cname[j] \in SetOfSeq(s2.lp.cname)
                                     /\ \A i \in named : LPW!ValidName(s1.lp.rname[i]) => s1.lp.rname[i] \in SetOfSeq(s2.lp.rname)
                 asSpec == ren => /\ SetOfSeq(L1.cname) = SetOfSeq(s2.lp.cname)
                                  /\ \A i \in named : L1.rname[i] \in SetOfSeq(s2.lp.rname)
                 d == IF both THEN (IF ~validKept THEN {"a name that is valid in LP format did not survive"} ELSE IF ~asSpec THEN {} ELSE RoundTripDefects(L1, s2.lp, ev.fmt = "MPS"))
                      ELSE IF s1.live /\ s1.sync THEN {"the written file was not read back"} ELSE {} IN
             /\ viol' = viol \cup (IF d = {} THEN {} ELSE {V(ev, SetOfSeq(ev.props), ev.fmt \o " file written and read back is a different problem: " \o ToString(d))})
                              \cup (IF both /\ validKept /\ ~asSpec THEN {V(ev, {"SPEC-DRIFT"}, "repaired names differ from LPWrite!FixNames: " \o ToString(s2.lp.cname) \o " / " \o ToString(s2.lp.rname))} ELSE {})
             /\ UNCHANGED <<st, slot, ans, glob>>
          ELSE IF ev.call = "eq_answer" THEN
             LET r1 == IF st[ev.h].live THEN st[ev.h].lastres ELSE NoneR  r2 == IF st[ev.h2].live THEN st[ev.h2].lastres ELSE NoneR
                 \* law between the two optimal values: val(h) = sign * val(h2) + off   (C15 transformations; default: equal)
                 v2 == IF r2.val = "?" THEN "?" ELSE RAdd(IF "neg" \in DOMAIN ev /\ ev.neg = 1 THEN RNeg(r2.val) ELSE r2.val, IF "off" \in DOMAIN ev THEN ev.off ELSE "0")
                 bad == ~IsNone(r1) /\ ~IsNone(r2) /\ (r1.status # r2.status \/ (r1.status = 1 /\ r1.val # "?" /\ v2 # "?" /\ r1.val # v2)) IN
             /\ viol' = viol \cup (IF bad THEN {V(ev, SetOfSeq(ev.props), "answers differ: " \o ev.h \o " (" \o r1.call \o ": status " \o ToString(r1.status) \o ", value " \o r1.val \o ") vs "
                                                                            \o ev.h2 \o " (" \o r2.call \o ": status " \o ToString(r2.status) \o ", value " \o r2.val \o ")")} ELSE {})
             /\ UNCHANGED <<st, slot, ans, glob>>
          ELSE IF ev.call = "same_outcome" THEN
             \* the same solve call was made on a problem and on its fresh copy (same data, same parameters, no edit in between):
             \* return value and status - definitive or not (iteration / objective limits) - must be the same
             LET a == IF st[ev.h].live THEN st[ev.h].lastany ELSE NoneR  b == IF st[ev.h2].live THEN st[ev.h2].lastany ELSE NoneR
                 bad == ~IsNone(a) /\ ~IsNone(b) /\ (a.rval # b.rval \/ a.status # b.status) IN
             /\ viol' = viol \cup (IF bad THEN {V(ev, SetOfSeq(ev.props), "the same solve behaves differently on a problem and on its copy: " \o ev.h \o " (" \o a.call \o ": rval " \o ToString(a.rval)
                                          \o ", status " \o ToString(a.status) \o ") vs " \o ev.h2 \o " (rval " \o ToString(b.rval) \o ", status " \o ToString(b.status) \o ")")} ELSE {})
             /\ UNCHANGED <<st, slot, ans, glob>>
          ELSE IF ev.call = "expect_lp" THEN
             \* the problem a generated file denotes (Gen_LPFile / Gen_MPSFile): what the reader delivered must be exactly that
             LET s2 == st[ev.h]
                 want == IF "tree" \in DOMAIN ev THEN (IF ev.fmt = "MPS" THEN MPSF!Denote(ev.tree) ELSE LPF!Denote(ev.tree)) ELSE ev.lp
                 d == IF s2.live /\ s2.sync THEN RoundTripDefects(want, s2.lp, ev.fmt = "MPS") ELSE {"the file was not read (reader failed on a valid file)"} IN
             /\ viol' = viol \cup (IF d = {} THEN {} ELSE {V(ev, SetOfSeq(ev.props), "problem read from the " \o ev.fmt \o " file differs from the problem the text denotes: " \o ToString(d))})
             /\ UNCHANGED <<st, slot, ans, glob>>
          ELSE IF ev.call = "esolver" THEN
             \* one run of the esolver program on the file the problem of handle h was read from: exit code, parsed solution file,
             \* optional second run with -B on the basis written with -b
             LET s0 == st[ev.h]
                 L == s0.lp
                 known == s0.live /\ s0.sync /\ UNKNOWN \notin SetOfSeq(L.cname) /\ UNKNOWN \notin SetOfSeq(L.rname)
                 truth == IF known /\ ~IsNone(s0.truth) THEN s0.truth.status ELSE 0
                 code == CASE ev.status = "OPTIMAL" -> 1 [] ev.status = "INFEASIBLE" -> 2 [] ev.status = "UNBOUNDED" -> 3 [] OTHER -> 0
                 libKnown == "samecfg" \in DOMAIN ev /\ ev.samecfg = 1 /\ s0.live /\ ~IsNone(s0.lastany) /\ s0.lastany.rval = 0
                 libCode == IF libKnown /\ s0.lastany.status \in {1, 2, 3} THEN s0.lastany.status ELSE 0
                 pick(list, nm) == LET h == {k \in 1..Len(list) : list[k].name = nm} IN IF h = {} THEN "0" ELSE list[CHOOSE k \in h : TRUE].v
                 sol == [val |-> ev.val, x |-> [j \in 1..L.n |-> pick(ev.vars, L.cname[j])], rc |-> [j \in 1..L.n |-> pick(ev.rc, L.cname[j])],
                         pi |-> [i \in 1..L.m |-> pick(ev.pi, L.rname[i])], slack |-> [i \in 1..L.m |-> pick(ev.slack, L.rname[i])]]
                 strays == ({e.name : e \in SetOfSeq(ev.vars) \cup SetOfSeq(ev.rc)} \ SetOfSeq(L.cname)) \cup ({e.name : e \in SetOfSeq(ev.pi) \cup SetOfSeq(ev.slack)} \ SetOfSeq(L.rname))
                 zeros == \E e \in SetOfSeq(ev.vars) \cup SetOfSeq(ev.rc) \cup SetOfSeq(ev.pi) \cup SetOfSeq(ev.slack) : e.v = "0"
                 ds == IF known /\ code = 1 THEN S!OptimalCertDefects(L, sol) ELSE {}
             IN /\ viol' = viol
                     \cup (IF ev.exit # 0 THEN {V(ev, {"C19"}, "esolver exits " \o ToString(ev.exit) \o " on a readable problem file (" \o ev.args \o ")")} ELSE {})
                     \cup (IF ev.exit = 0 /\ truth # 0 /\ code # 0 /\ code # truth THEN {V(ev, {"C19"}, "solution file states " \o ev.status \o " but the verified truth is status " \o ToString(truth))} ELSE {})
                     \* "reports exactly what the library computed": the same solve through the library (same algorithm, pricing, scaling) precedes
                     \* the run in the scenario; a non-definitive answer of the library itself is C03's business, not the program's
                     \cup (IF ev.exit = 0 /\ libKnown /\ code # libCode
                           THEN {V(ev, {"C19"}, "solution file states " \o ev.status \o " but the library, called with the same settings, answers status " \o ToString(s0.lastany.status))} ELSE {})
                     \cup (IF ev.exit = 0 /\ code = 0 /\ known /\ S!WellFormed(L) /\ ~libKnown THEN {V(ev, {"C19"}, "solution file states no definitive status: " \o ev.status)} ELSE {})
                     \cup (IF ds = {} THEN {} ELSE {V(ev, {"C19"}, "the solution file does not contain an exact optimality certificate: " \o ToString(DefectText(ds)))})
                     \cup (IF known /\ code = 1 /\ (strays # {} \/ zeros) THEN {V(ev, {"C19"}, "solution file lists unknown names or zero entries")} ELSE {})
                     \cup (IF ev.exit = 0 /\ code = 1 /\ truth = 1 /\ ev.val # s0.truth.val THEN {V(ev, {"C19"}, "optimal value in the solution file differs from the verified optimum")} ELSE {})
                     \cup (IF "exit2" \in DOMAIN ev /\ ev.exit = 0 /\ code = 1 /\ ~(ev.exit2 = 0 /\ ev.status2 = "OPTIMAL" /\ ev.val2 = ev.val)
                           THEN {V(ev, {"C19"}, "a basis written with -b is not accepted as optimal when read back with -B (exit " \o ToString(ev.exit2) \o ", " \o ev.status2 \o ")")} ELSE {})
                /\ UNCHANGED <<st, slot, ans, glob>>
          ELSE IF ev.call = "claim_optimal" THEN
             \* the basis in slot b was announced as optimal for the problem of handle h by someone else (esolver -b): the next exact verdict must confirm it
             LET s0 == st[ev.h] IN
             /\ slot' = IF IsNone(slot[ev.b]) \/ ~s0.live \/ ~s0.sync THEN slot
                        ELSE [slot EXCEPT ![ev.b].opt = [c |-> Content(s0.lp), val |-> ev.val, props |-> SetOfSeq(ev.props)]]
             /\ viol' = viol \cup (IF IsNone(slot[ev.b]) THEN {V(ev, SetOfSeq(ev.props), "the basis file announced as optimal cannot be read back against its problem")} ELSE {})
             /\ UNCHANGED <<st, ans, glob>>
          ELSE IF ev.call = "esolver_bad" THEN
             \* a file outside the generated language: esolver must agree with the library's reader (the read_prob just before on handle h):
             \* rejected by the reader -> non-zero exit, no signal;  accepted (with warnings) -> a normal run, exit 0
             /\ viol' = viol \cup (IF st[ev.h].live THEN (IF ev.exit = 0 THEN {} ELSE {V(ev, {"C19"}, "esolver exits " \o ToString(ev.exit) \o " on a file the library reads (" \o ev.file \o ")")})
                                   ELSE IF ev.exit > 0 /\ ev.exit < 126 THEN {} ELSE {V(ev, {"C19"}, "esolver on a malformed/unreadable file: exit status " \o ToString(ev.exit))})
             /\ UNCHANGED <<st, slot, ans, glob>>
          ELSE IF ev.call = "determinism" THEN
             /\ viol' = viol \cup (IF ev.digest1 = ev.digest2 THEN {} ELSE {V(ev, {"C17"}, "two executions of the same scenario in fresh processes differ (first difference at event " \o ToString(ev.first) \o ": " \o ev.what \o ")")})
             /\ UNCHANGED <<st, slot, ans, glob>>
          ELSE IF ev.call = "memcheck" THEN
             \* valgrind memcheck over the process that executed the preceding scenarios (plain build)
             /\ viol' = viol \cup (IF ev.errors > 0 THEN {V(ev, {"C17"}, "valgrind memcheck reports " \o ToString(ev.errors) \o " error(s): " \o ev.kinds \o " at " \o ev.sites)} ELSE {})
             /\ UNCHANGED <<st, slot, ans, glob>>
          ELSE IF ev.call = "shutdown" THEN
             /\ viol' = viol \cup (IF ev.leak > 0 THEN {V(ev, {"C18"}, "memory allocated by the library is still unreleased after everything was freed and the library shut down (LeakSanitizer): " \o (IF "sites" \in DOMAIN ev THEN ev.sites ELSE "?"))} ELSE {})
             /\ UNCHANGED <<st, slot, ans, glob>>
          ELSE IF ev.call = "readnum" THEN
             \* the real scanner on one string: must behave as its transcription NumLit!Scan, and read every valid literal as its value
             LET r == NL!Scan(ev.chars)
                 vSpec == IF r.used = ev.used /\ (ev.used = 0 \/ r.val = ev.v) THEN {}
                          ELSE {V(ev, {"C10", "C11"}, "number scanner deviates from its specification on " \o ToString(ev.chars) \o ": consumed " \o ToString(ev.used) \o " value " \o ev.v
                                       \o ", specified " \o ToString(r.used) \o " value " \o r.val)}
                 vDen == IF NL!IsLiteral(ev.chars) /\ ~(ev.used = Len(ev.chars) /\ ev.v = NL!Value(ev.chars))
                         THEN {V(ev, {"C10"}, "valid literal " \o ToString(ev.chars) \o " read as " \o ev.v \o " (" \o ToString(ev.used) \o " characters), denotes " \o NL!Value(ev.chars))} ELSE {}
             IN /\ viol' = viol \cup vSpec \cup vDen \cup Quiet(ev) /\ UNCHANGED <<st, slot, ans, glob>>
          ELSE IF ev.call \in {"mkbasis", "free_basis"} THEN
             /\ slot' = [slot EXCEPT ![ev.b] = IF ev.call = "mkbasis" THEN BasOf(ev.bas) ELSE NoneR]
             /\ viol' = viol \cup Quiet(ev) /\ UNCHANGED <<st, ans, glob>>
          ELSE IF "h" \in DOMAIN ev THEN
             LET r == Step(ev)
                 s0 == st[ev.h]
                 \* ghost answer map (C04/C05): definitive results per LP content
                 isSolveEv == ev.call \in {"exact", "opt_primal", "opt_dual"} /\ s0.live /\ s0.sync /\ ev.rval = 0 /\ Definitive(ev.status)
                 isSolObs == ev.call = "sol" /\ s0.live /\ s0.sync /\ ~s0.edited /\ SolAvail(ev) /\ ev.rv_status = 0 /\ ev.status = 1
                 isSolve == isSolveEv \/ isSolObs
                 cont == IF isSolve THEN Content(s0.lp) ELSE <<>>
                 val == IF isSolObs THEN ev.objval
                        ELSE IF isSolveEv /\ ev.status = 1 /\ ev.call = "exact" /\ ev.wantxy = 1 THEN S!ObjVal(s0.lp, SubSeq(ev.x, 1, s0.lp.n)) ELSE "?"
                 stat == IF isSolObs THEN 1 ELSE ev.status
                 prior == IF isSolve THEN {a \in ans : a.c = cont} ELSE {}
                 clash == {a \in prior : a.status # stat \/ (a.val # "?" /\ val # "?" /\ a.val # val)}
                 a1 == CHOOSE a \in clash : TRUE
                 \* residue rules (Residue.tla): the three observables the driver logs after every call
                 hasRes == "res" \in DOMAIN ev /\ "qstatus" \in DOMAIN ev.res
                 resNow == IF hasRes THEN RES!Proj(ev.res) ELSE NoneR
                 resOld == IF s0.live /\ "resid" \in DOMAIN s0 THEN s0.resid ELSE NoneR
                 vRes == IF hasRes /\ ~IsNone(resOld) /\ "rval" \in DOMAIN ev /\ RES!RejectedChanged(ev.call, ev.rval, resOld, resNow)
                         THEN {V(ev, {"C07"}, "a rejected call changed the stored basis / solution / status: before " \o ToString(resOld) \o " after " \o ToString(resNow))} ELSE {}
                 vDrift == IF hasRes /\ ~IsNone(resOld) /\ "rval" \in DOMAIN ev /\ RES!Drift(ev.call, ev.rval, resOld, resNow)
                           THEN {V(ev, {"SPEC-DRIFT"}, "residue after " \o ev.call \o " is " \o ToString(resNow) \o ", the rules allow " \o ToString(RES!After(ev.call, resOld)))} ELSE {}
             IN
             /\ st' = [st EXCEPT ![ev.h] = IF r.s.live /\ hasRes THEN [r.s EXCEPT !.resid = resNow] ELSE r.s]
             /\ viol' = viol \cup r.v \cup Quiet(ev) \cup vRes \cup vDrift
                        \cup (IF ev.call = "read_basis" /\ s0.live /\ s0.sync /\ UNKNOWN \notin SetOfSeq(s0.lp.cname) /\ UNKNOWN \notin SetOfSeq(s0.lp.rname)
                                  /\ \E f \in glob.files : f.f = ev.file /\ BF!WellFormedLines(f.lines, s0.lp.cname, s0.lp.rname)
                               THEN LET f == CHOOSE f \in glob.files : f.f = ev.file
                                        want == BF!Read(f.lines, s0.lp.cname, s0.lp.rname, [j \in 1..s0.lp.n |-> s0.lp.lo[j] = "-inf" /\ s0.lp.up[j] = "inf"])
                                    IN IF ev.ok = 1 /\ "cstat" \in DOMAIN ev.bas /\ "rstat" \in DOMAIN ev.bas /\ ev.bas.cstat = want.cstat /\ ev.bas.rstat = want.rstat THEN {}
                                       ELSE IF ev.ok = 1 /\ s0.lp.n = 0 /\ s0.lp.m = 0 THEN {}
                                       ELSE {V(ev, {"C14"}, "basis read from the file differs from what the file denotes: expected " \o ToString(want))}
                               ELSE {})
                        \cup (IF clash = {} THEN {} ELSE {V(ev, {"C04", "C05"}, "definitive answer (" \o ev.call \o ": status " \o ToString(stat) \o ", value " \o val
                                   \o ") differs from an earlier one for the same LP content (" \o a1.call \o ": status " \o ToString(a1.status) \o ", value " \o a1.val \o ", event " \o ToString(a1.n) \o ")")})
             \* keep the first answer per content (a clash is reported once per later solve, it does not cascade)
             /\ ans' = IF isSolve /\ clash = {} THEN ans \cup {[c |-> cont, status |-> stat, val |-> val, n |-> ev.n, call |-> ev.call]} ELSE ans
             /\ slot' = IF ev.call \in {"get_basis", "read_basis"} THEN [slot EXCEPT ![ev.b] = IF ev.ok = 1 THEN BasOf(ev.bas) ELSE NoneR]
                        ELSE IF ev.call = "exact" /\ ev.b # "-"
                        THEN [slot EXCEPT ![ev.b] = [BasOf(ev.bout) EXCEPT !.opt = IF isSolveEv /\ ev.status = 1 THEN [c |-> cont, val |-> val] ELSE NoneR]]
                        ELSE slot
             /\ UNCHANGED glob
          ELSE
             /\ viol' = viol \cup Quiet(ev) /\ UNCHANGED <<st, slot, ans, glob>>
       /\ cnt' = [cnt EXCEPT !.events = @ + 1,
                             !.dumps = @ + (IF ev.call = "dump" THEN 1 ELSE 0),
                             !.stores = @ + (IF ev.call = "dump" /\ "store" \in DOMAIN ev THEN 1 ELSE 0),
                             !.scenarios = @ + (IF ev.call = "scenario" THEN 1 ELSE 0),
                             !.solves = @ + (IF ev.call \in {"exact", "opt_primal", "opt_dual"} THEN 1 ELSE 0),
                             !.optcerts = @ + (IF ev.call = "exact" /\ ev.rval = 0 /\ ev.status = 1 /\ ev.wantxy = 1 THEN 1 ELSE 0)
                                            + (IF ev.call = "sol" /\ "rv_x" \in DOMAIN ev /\ SolAvail(ev) THEN 1 ELSE 0),
                             !.farkas = @ + (IF ev.call = "exact" /\ ev.rval = 0 /\ ev.status = 2 /\ ev.wantxy = 1 THEN 1 ELSE 0),
                             !.unb = @ + (IF ev.call = "exact" /\ ev.rval = 0 /\ ev.status = 3 THEN 1 ELSE 0),
                             !.witnesses = @ + (IF ev.call = "witness" THEN 1 ELSE 0),
                             !.rejected = @ + (IF "rval" \in DOMAIN ev /\ ev.rval # 0 THEN 1 ELSE 0),
                             !.binv = @ + (IF ev.call = "binv" /\ ev.rv_order = 0 THEN 1 ELSE 0),
                             !.quiet = @ + (IF "hon" \in DOMAIN ev /\ ev.hon = 1 THEN 1 ELSE 0),
                             !.conv = @ + (IF ev.call = "copy_conv" THEN 1 ELSE 0),
                             !.basverdicts = @ + (IF ev.call \in {"basis_optimalstatus", "basis_dualstatus", "verify"} THEN 1 ELSE 0),
                             !.basisrt = @ + (IF ev.call \in {"basis_rt", "basis_file", "rt_check", "expect_lp"} THEN 1 ELSE 0),
                             !.agree = @ + (IF ev.call = "eq_answer" THEN 1 ELSE 0),
                             !.lptext = @ + (IF ev.call \in {"lp_text", "mps_text"} THEN 1 ELSE 0),
                             !.solobs = @ + (IF ev.call = "sol" THEN 1 ELSE 0),
                             !.edits = @ + (IF "rval" \in DOMAIN ev /\ ev.rval = 0 /\ ev.call \in {"new_col", "add_col", "add_cols", "new_row", "add_row", "add_rows", "add_ranged_row", "add_ranged_rows",
                                                 "delete_row", "delete_rows", "delete_setrows", "delete_named_row", "delete_named_rows", "delete_col", "delete_cols", "delete_setcols",
                                                 "delete_named_column", "delete_named_columns", "change_coef", "change_objcoef", "change_rhscoef", "change_range", "change_sense",
                                                 "change_senses", "change_bound", "change_bounds", "change_objsense"} THEN 1 ELSE 0)]

Spec == Init /\ [][Next]_vars

\* export verdicts when the whole trace has been consumed (a POSTCONDITION cannot see variables)
RECURSIVE SetToSeqR(_)
SetToSeqR(X) == IF X = {} THEN <<>> ELSE LET x == CHOOSE x \in X : TRUE IN <<x>> \o SetToSeqR(X \ {x})
Export ==
  l = Len(Tr) + 1 =>
    ndJsonSerialize(VerdictFile, <<[kind |-> "summary", consumed |-> l - 1, len |-> Len(Tr), cnt |-> cnt, nviol |-> Cardinality(viol)]>>
        \o [k \in 1..Cardinality(viol) |-> LET x == SetToSeqR(viol)[k] IN
              [kind |-> "verdict", n |-> x.n, call |-> x.call, props |-> SetToSeqR(x.props), why |-> x.why]])
=============================================================================
