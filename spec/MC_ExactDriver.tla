--------------------------- MODULE MC_ExactDriver ---------------------------
(* All event sequences of the QSexact_solver ladder machine (ExactDriver): the float solver, the exact
   tests and the rational basis status are nondeterministic oracles.  Checks at design level that a
   definitive OPTIMAL / INFEASIBLE can only be returned straight after a PASSING exact test (C01, C02),
   that the ladder is bounded (C03: termination of the driver), and which exits exist. *)
EXTENDS Integers, Sequences, TLC
CONSTANT MaxMpf
ED == INSTANCE ExactDriver
VARIABLES s, lastev
Events ==
  {[e |-> "enter", a |-> 0, b |-> 0]}
  \cup {[e |-> "fsolve", a |-> k, b |-> rc] : k \in 0..MaxMpf, rc \in {0, 1}}
  \cup {[e |-> "fstatus", a |-> st, b |-> it] : st \in {1, 2, 3, 4, 6, 8, 9}, it \in {0, 1}}
  \cup {[e |-> t, a |-> r, b |-> 0] : t \in {"opt_test", "inf_test"}, r \in {0, 1}}
  \cup {[e |-> "bstatus", a |-> st, b |-> 0] : st \in {1, 2, 3, 6}}
  \cup {[e |-> "return", a |-> st, b |-> rv] : st \in {0, 1, 2, 3, 4, 6, 8, 9}, rv \in {0, 1}}
Init == s = ED!Start /\ lastev = [e |-> "none", a |-> 0, b |-> 0]
Next == \E ev \in Events : LET t == ED!Step(s, ev) IN t # ED!Reject /\ s' = t /\ lastev' = ev
Spec == Init /\ [][Next]_<<s, lastev>>
Done == s.pc = "done"
\* OPTIMAL / INFEASIBLE leave the driver only straight after a passing exact test.
\* (Before the repair "fix: QSexact_solver does not report an uncertified OPTIMAL/INFEASIBLE ..." TLC found the
\*  counterexample: the ladder-exhausted exit carried an uncertified verdict of the rational basis check.)
OptimalOnlyAfterTest    == Done /\ lastev.a = 1 /\ lastev.b = 0 => s.certified
InfeasibleOnlyAfterTest == Done /\ lastev.a = 2 /\ lastev.b = 0 => s.certified
\* UNBOUNDED and the non-definitive statuses leave only through ladder exhaustion
OthersOnlyAtExhaustion == Done /\ lastev.b = 0 /\ lastev.a \notin {1, 2} => s.level = MaxMpf + 1
LadderBounded == s.level <= MaxMpf + 1
\* every non-final state has a successor (the driver cannot get stuck)
NoStuck == s.pc # "done" => \E ev \in Events : ED!Step(s, ev) # ED!Reject
=============================================================================
