------------------------------- MODULE LPFile -------------------------------
(***************************************************************************)
(* What an LP-format file DENOTES.  The text is given as a structured token  *)
(* stream (a tree that keeps every choice with a meaning: keyword spelling,   *)
(* each numeric literal character by character, omitted coefficients,        *)
(* repeated terms, operator spelling, the order of the bound lines); layout   *)
(* (blanks, line breaks, comments, letter case of keywords) carries no        *)
(* meaning and is chosen by the renderer.                                    *)
(*                                                                         *)
(*  tree = [ minmax : spelling in upper case,                                *)
(*           obj    : [name, terms],                                         *)
(*           rows   : Seq([name, terms, op, rneg, rhs]),                      *)
(*           bounds : Seq(bound entry),  ints : Seq(name) ]                   *)
(*  term = [neg : BOOLEAN, coef : chars or <<>>, var : name]                  *)
(*  bound entry: [k |-> "lu"|"l"|"u"|"fix"|"free", var, lo, up, v]            *)
(*  bound value: [neg : BOOLEAN, inf : BOOLEAN, lit : chars]                  *)
(***************************************************************************)
EXTENDS Integers, Sequences, FiniteSets, BigRat
NL == INSTANCE NumLit

MaxWords == {"MAX", "MAXIMUM", "MAXIMIZE"}
MinWords == {"MIN", "MINIMUM", "MINIMIZE"}
LeOps == {"<", "<=", "=<"}
GeOps == {">", ">=", "=>"}

TermVal(t) == LET v == IF t.coef = <<>> THEN "1" ELSE NL!Value(t.coef) IN IF t.neg THEN RNeg(v) ELSE v
BVal(b) == IF b.inf THEN (IF b.neg THEN "-inf" ELSE "inf") ELSE (IF b.neg THEN RNeg(NL!Value(b.lit)) ELSE NL!Value(b.lit))

\* variables in order of first appearance: objective first, then the rows
RECURSIVE AppendNew(_, _)
AppendNew(seq, names) == IF names = <<>> THEN seq
                         ELSE AppendNew(IF \E k \in 1..Len(seq) : seq[k] = Head(names) THEN seq ELSE Append(seq, Head(names)), Tail(names))
TermVars(terms) == [k \in 1..Len(terms) |-> terms[k].var]
RECURSIVE RowsVars(_, _, _)
RowsVars(rows, i, acc) == IF i > Len(rows) THEN acc ELSE RowsVars(rows, i + 1, AppendNew(acc, TermVars(rows[i].terms)))
Vars(tree) == RowsVars(tree.rows, 1, AppendNew(<<>>, TermVars(tree.obj.terms)))
Idx(seq, x) == CHOOSE k \in 1..Len(seq) : seq[k] = x

\* sum of the terms of one expression per variable
RECURSIVE SumTerms(_, _, _)
SumTerms(terms, k, acc) ==      \* acc: function var -> value for the variables seen so far (as a set of pairs kept in a sequence)
  IF k > Len(terms) THEN acc
  ELSE LET t == terms[k]
           hit == {q \in 1..Len(acc) : acc[q][1] = t.var}
       IN SumTerms(terms, k + 1,
                   IF hit = {} THEN Append(acc, <<t.var, TermVal(t)>>)
                   ELSE [q \in 1..Len(acc) |-> IF q \in hit THEN <<acc[q][1], RAdd(acc[q][2], TermVal(t))>> ELSE acc[q]])
ExprCoefs(terms) == SumTerms(terms, 1, <<>>)

\* bounds: first definition of a side wins; state per variable [lo, up, hasLo, hasUp]
RECURSIVE ApplyBounds(_, _, _)
ApplyBounds(bs, k, B) ==
  IF k > Len(bs) THEN B
  ELSE LET e == bs[k]
           cur == B[e.var]
           setLo(c, v) == IF c.hasLo THEN c ELSE [c EXCEPT !.lo = v, !.hasLo = TRUE]
           setUp(c, v) == IF c.hasUp THEN c ELSE [c EXCEPT !.up = v, !.hasUp = TRUE]
           new == CASE e.k = "lu" -> setUp(setLo(cur, BVal(e.lo)), BVal(e.up))
                    [] e.k = "l" -> setLo(cur, BVal(e.lo))
                    [] e.k = "u" -> setUp(cur, BVal(e.up))
                    [] e.k = "fix" -> setUp(setLo(cur, BVal(e.v)), BVal(e.v))
                    [] OTHER -> setUp(setLo(cur, "-inf"), "inf")       \* free
       IN ApplyBounds(bs, k + 1, [B EXCEPT ![e.var] = new])

Denote(tree) ==
  LET vars == Vars(tree)
      n == Len(vars)
      rows == tree.rows
      m == Len(rows)
      B0 == [v \in {vars[j] : j \in 1..n} |-> [lo |-> "0", up |-> "inf", hasLo |-> FALSE, hasUp |-> FALSE]]
      B == ApplyBounds(tree.bounds, 1, B0)
      isint(v) == \E k \in 1..Len(tree.ints) : tree.ints[k] = v
      lo(v) == IF ~B[v].hasLo /\ B[v].hasUp /\ B[v].up # "inf" /\ B[v].up # "-inf" /\ RSign(B[v].up) < 0 THEN "-inf" ELSE B[v].lo
      up(v) == IF isint(v) /\ ~B[v].hasLo /\ ~B[v].hasUp THEN "1" ELSE B[v].up
      objc == ExprCoefs(tree.obj.terms)
      coefOf(pairs, v) == LET h == {q \in 1..Len(pairs) : pairs[q][1] = v} IN IF h = {} THEN "0" ELSE pairs[CHOOSE q \in h : TRUE][2]
      rowEnt(i) == LET pairs == ExprCoefs(rows[i].terms)
                       ent == [q \in 1..Len(pairs) |-> [j |-> Idx(vars, pairs[q][1]), v |-> pairs[q][2]]]
                   IN ent
  IN [m |-> m, n |-> n,
      A |-> [i \in 1..m |-> rowEnt(i)],       \* (not sorted by column: only used through name-based comparison)
      sense |-> [i \in 1..m |-> IF rows[i].op \in LeOps THEN "L" ELSE IF rows[i].op \in GeOps THEN "G" ELSE "E"],
      rhs |-> [i \in 1..m |-> IF rows[i].rneg THEN RNeg(NL!Value(rows[i].rhs)) ELSE NL!Value(rows[i].rhs)],
      range |-> [i \in 1..m |-> "0"],
      rname |-> [i \in 1..m |-> rows[i].name],
      obj |-> [j \in 1..n |-> coefOf(objc, vars[j])],
      lo |-> [j \in 1..n |-> lo(vars[j])], up |-> [j \in 1..n |-> up(vars[j])],
      cname |-> vars, isint |-> [j \in 1..n |-> IF isint(vars[j]) THEN 1 ELSE 0],
      max |-> tree.minmax \in MaxWords]

\* the tree is inside the documented language (what the generator must respect)
WellFormedTree(tree) ==
  /\ tree.minmax \in MaxWords \cup MinWords
  /\ \A i \in 1..Len(tree.rows) : tree.rows[i].op \in LeOps \cup GeOps \cup {"="} /\ NL!IsLiteral(tree.rows[i].rhs) /\ Len(tree.rows[i].terms) > 0
  /\ \A i \in 1..Len(tree.rows) : \A k \in 1..Len(tree.rows[i].terms) : tree.rows[i].terms[k].coef = <<>> \/ NL!IsLiteral(tree.rows[i].terms[k].coef)
  /\ \A k \in 1..Len(tree.obj.terms) : tree.obj.terms[k].coef = <<>> \/ NL!IsLiteral(tree.obj.terms[k].coef)
=============================================================================
