CONSTANTS MaxRows = 2 MaxCols = 2 Depth = 2
SPECIFICATION Spec
INVARIANT Emit
CHECK_DEADLOCK FALSE
