----------------------------- MODULE MC_QSProb -----------------------------
(***************************************************************************)
(* Bounded instance of the problem-object model (QSProb): ALL histories of   *)
(* edit calls - valid ones and every class of invalid argument - on tiny LPs. *)
(*                                                                         *)
(* Used two ways:                                                          *)
(*  (a) model checking: the invariants below hold in every reachable state    *)
(*      (the reference model itself is consistent: shapes, name uniqueness,   *)
(*      failed calls change nothing, the list/set/name variants of delete     *)
(*      agree, an added row/column can be deleted again without trace);       *)
(*  (b) scenario generation: with Emit as an additional invariant every        *)
(*      history of length Depth is written (as JSON, one per line) to the file *)
(*      named by the environment variable GENOUT; the harness replays it       *)
(*      against the real library and validates the trace with Trace.tla.      *)
(***************************************************************************)
EXTENDS Integers, Sequences, FiniteSets, TLC, Json, CSV, IOUtils, QSProb

CONSTANTS MaxRows, MaxCols, Depth

VARIABLES L,      \* the LP value
          hist,   \* the calls made so far (as trace-event records)
          last    \* [valid |-> BOOLEAN, before |-> LP] of the last call
vars == <<L, hist, last>>

Vals  == {"0", "1", "-2", "1/2"}
NzVals == {"1", "-2"}
Names == {"a", "b", UNKNOWN}
BadSenses == {"X"}
Bnds == {<<"0", "inf">>, <<"-inf", "inf">>, <<"-1", "1">>}

Seeds ==
  { EmptyLP(FALSE),
    [EmptyLP(TRUE) EXCEPT !.m = 1, !.n = 2, !.A = << <<[j |-> 1, v |-> "1"], [j |-> 2, v |-> "-2"]>> >>,
        !.sense = <<"L">>, !.rhs = <<"1">>, !.range = <<"0">>, !.rname = <<"r1">>,
        !.obj = <<"1", "0">>, !.lo = <<"0", "-inf">>, !.up = <<"inf", "1">>, !.cname = <<"x1", "x2">>, !.isint = <<0, 0>>],
    [EmptyLP(FALSE) EXCEPT !.m = 2, !.n = 1, !.A = << <<[j |-> 1, v |-> "1"]>>, <<>> >>,
        !.sense = <<"R", "G">>, !.rhs = <<"0", "1">>, !.range = <<"1/2", "0">>, !.rname = <<"r1", "r2">>,
        !.obj = <<"-2">>, !.lo = <<"0">>, !.up = <<"inf">>, !.cname = <<"x1">>, !.isint = <<0>>] }

\* sparse vectors over 0..count-1 with at most 2 entries, no duplicates, plus one with an out-of-range index
Ents(count) ==
  {<<>>}
  \cup {<<[j |-> a, v |-> v]>> : a \in 0..(count - 1), v \in NzVals}
  \cup {<<[j |-> ab[1], v |-> "1"], [j |-> ab[2], v |-> "-2"]>> : ab \in {ab \in (0..(count - 1)) \X (0..(count - 1)) : ab[1] # ab[2]}}
  \cup {<<[j |-> count, v |-> "1"]>>, <<[j |-> -1, v |-> "1"]>>}

\* one step: call record c (fields as in the trace), validity, successor
Do(c, valid, post) ==
  /\ hist' = Append(hist, c)
  /\ L' = IF valid THEN post ELSE L
  /\ last' = [valid |-> valid, before |-> L]

Idx(count) == -1..count        \* includes both out-of-range neighbours

Next ==
  /\ Len(hist) <= Depth
  /\ \/ \E rhs \in {"1", "0"}, s \in Senses \cup BadSenses, nm \in Names :
          /\ L.m < MaxRows
          /\ Do([call |-> "new_row", rhs |-> rhs, sense |-> s, name |-> nm], AddRowValid(L, <<>>, s, nm), AddRow(L, <<>>, rhs, s, "0", nm))
     \/ \E e \in Ents(L.n), s \in {"L", "E", "X"}, nm \in Names :
          /\ L.m < MaxRows
          /\ Do([call |-> "add_row", ent |-> e, rhs |-> "1", sense |-> s, name |-> nm], AddRowValid(L, e, s, nm), AddRow(L, e, "1", s, "0", nm))
     \/ \E e \in Ents(L.n), s \in {"R", "G"}, g \in {"0", "1/2"}, nm \in Names :
          /\ L.m < MaxRows
          /\ Do([call |-> "add_ranged_row", ent |-> e, rhs |-> "-2", sense |-> s, range |-> g, name |-> nm], AddRowValid(L, e, s, nm), AddRow(L, e, "-2", s, g, nm))
     \/ \E b \in Bnds, o \in {"1", "0"}, nm \in Names :
          /\ L.n < MaxCols
          /\ Do([call |-> "new_col", obj |-> o, lo |-> b[1], up |-> b[2], name |-> nm], AddColValid(L, <<>>, nm), AddCol(L, <<>>, o, b[1], b[2], nm))
     \/ \E e \in Ents(L.m), b \in Bnds, nm \in Names :
          /\ L.n < MaxCols
          /\ Do([call |-> "add_col", ent |-> e, obj |-> "-2", lo |-> b[1], up |-> b[2], name |-> nm], AddColValid(L, e, nm), AddCol(L, e, "-2", b[1], b[2], nm))
     \/ \E i \in Idx(L.m) : Do([call |-> "delete_row", i |-> i], RowIdxValid(L, i), DelRows(L, {i}))
     \/ \E j \in Idx(L.n) : Do([call |-> "delete_col", i |-> j], ColIdxValid(L, j), DelCols(L, {j}))
     \/ \E S \in SUBSET (0..L.m) : S # {} /\ Cardinality(S) <= 2 /\
          Do([call |-> "delete_rows", set |-> S], DelRowsValid(L, S), DelRows(L, S))
     \/ \E S \in SUBSET (0..L.n) : S # {} /\ Cardinality(S) <= 2 /\
          Do([call |-> "delete_cols", set |-> S], DelColsValid(L, S), DelCols(L, S))
     \/ \E S \in SUBSET (0..(L.m - 1)) : Do([call |-> "delete_setrows", set |-> S, count |-> L.m], TRUE, DelRows(L, S))
     \/ \E S \in SUBSET (0..(L.n - 1)) : Do([call |-> "delete_setcols", set |-> S, count |-> L.n], TRUE, DelCols(L, S))
     \/ \E nm \in {"a", "b", "r1", "zz"} : UNKNOWN \notin Range(L.rname) /\
          Do([call |-> "delete_named_row", name |-> nm], nm \in Range(L.rname),
             DelRows(L, {i \in 0..(L.m - 1) : L.rname[i + 1] = nm}))
     \/ \E nm \in {"a", "b", "x1", "zz"} : UNKNOWN \notin Range(L.cname) /\
          Do([call |-> "delete_named_column", name |-> nm], nm \in Range(L.cname),
             DelCols(L, {j \in 0..(L.n - 1) : L.cname[j + 1] = nm}))
     \/ \E i \in Idx(L.m), j \in Idx(L.n), v \in Vals :
          Do([call |-> "change_coef", i |-> i, j |-> j, v |-> v], RowIdxValid(L, i) /\ ColIdxValid(L, j), ChgCoef(L, i, j, v))
     \/ \E j \in Idx(L.n), v \in {"1", "0"} : Do([call |-> "change_objcoef", i |-> j, v |-> v], ColIdxValid(L, j), ChgObj(L, j, v))
     \/ \E i \in Idx(L.m), v \in {"1", "0"} : Do([call |-> "change_rhscoef", i |-> i, v |-> v], RowIdxValid(L, i), ChgRhs(L, i, v))
     \/ \E i \in Idx(L.m), v \in {"1", "0"} : Do([call |-> "change_range", i |-> i, v |-> v], ChgRangeValid(L, i), ChgRange(L, i, v))
     \/ \E i \in Idx(L.m), s \in Senses \cup BadSenses :
          Do([call |-> "change_sense", i |-> i, sense |-> s], RowIdxValid(L, i) /\ s \in Senses, ChgSense(L, i, s))
     \/ \E j \in Idx(L.n), lu \in {"L", "U", "B", "X"}, v \in {"1", "-inf", "inf"} :
          Do([call |-> "change_bound", j |-> j, lu |-> lu, v |-> v], ColIdxValid(L, j) /\ BoundSelValid(lu), ChgBound(L, j, lu, v))
     \/ \E os \in {1, -1, 0} : Do([call |-> "change_objsense", objsense |-> os], ObjSenseValid(os), ChgObjSense(L, os))

Init == L \in Seeds /\ hist = <<[call |-> "seed", lp |-> L]>> /\ last = [valid |-> TRUE, before |-> L]
Spec == Init /\ [][Next]_vars

\* ------------------------------------------------------------------ invariants
ShapeInv == Shape(L)
FailAtomic == ~last.valid => L = last.before              \* C07 at design level
\* an appended row / column can be removed again without trace (names aside)
UndoLaw ==
  Len(hist) > 1 /\ last.valid =>
    LET c == hist[Len(hist)] IN
      /\ (c.call \in {"new_row", "add_row", "add_ranged_row"} => DelRows(L, {L.m - 1}) = last.before)
      /\ (c.call \in {"new_col", "add_col"} => DelCols(L, {L.n - 1}) = last.before)
\* delete-by-set = the same deletes one at a time in descending order
RECURSIVE DelRowsOneByOne(_, _)
DelRowsOneByOne(LL, S) == IF S = {} THEN LL ELSE LET i == CHOOSE i \in S : \A k \in S : k <= i IN DelRowsOneByOne(DelRows(LL, {i}), S \ {i})
RECURSIVE DelColsOneByOne(_, _)
DelColsOneByOne(LL, S) == IF S = {} THEN LL ELSE LET i == CHOOSE i \in S : \A k \in S : k <= i IN DelColsOneByOne(DelCols(LL, {i}), S \ {i})
DeleteLaw ==
  /\ \A S \in SUBSET (0..(L.m - 1)) : DelRows(L, S) = DelRowsOneByOne(L, S)
  /\ \A S \in SUBSET (0..(L.n - 1)) : DelCols(L, S) = DelColsOneByOne(L, S)
\* the mathematical content never depends on names or integrality marks
ContentLaw == Content(L) = Content([L EXCEPT !.rname = [i \in 1..L.m |-> "n"], !.cname = [j \in 1..L.n |-> "n"]])

MCView == <<L, last, Len(hist), hist[Len(hist)]>>   \* histories are irrelevant for the invariants: merge them

\* ------------------------------------------------------------------ generation
GenOut == IF "GENOUT" \in DOMAIN IOEnv THEN IOEnv.GENOUT ELSE "/dev/null"
Emit == Len(hist) = Depth + 1 => CSVWrite("%1$s", <<ToJson(hist)>>, GenOut)
=============================================================================
