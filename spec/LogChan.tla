------------------------------- MODULE LogChan -------------------------------
(***************************************************************************)
(* Where diagnostics go: with a log handler installed every message goes to  *)
(* the handler and nothing reaches the process's stdout / stderr.            *)
(* `out`/`err` count bytes on fd 1 / fd 2, `msgs` handler invocations.        *)
(***************************************************************************)
EXTENDS Integers
VARIABLES handler, out, err, msgs
vars == <<handler, out, err, msgs>>
Init == handler = FALSE /\ out = 0 /\ err = 0 /\ msgs = 0
SetHandler(on) == handler' = on /\ UNCHANGED <<out, err, msgs>>
\* a library call that produces n >= 0 diagnostics
Call(n) == /\ IF handler THEN msgs' = msgs + n /\ UNCHANGED <<out, err>>
              ELSE err' = err + n /\ UNCHANGED <<out, msgs>>      \* default sink: stderr
           /\ UNCHANGED handler
Next == (\E on \in BOOLEAN : SetHandler(on)) \/ (\E n \in 0..2 : Call(n))
Spec == Init /\ [][Next]_vars
\* action property checked on every step: with a handler installed no byte is added to fd 1 / fd 2
QuietWhenHandled == [][handler => (out' = out /\ err' = err)]_vars
=============================================================================
