------------------------------ MODULE BasisFile ------------------------------
(***************************************************************************)
(* The basis file format (MPS-style) as written by QSwrite_basis and read by *)
(* QSread_basis: after a NAME line, one line                                 *)
(*    XL col row   column basic, row's logical non-basic at lower            *)
(*    XU col row   column basic, row's logical non-basic at upper            *)
(*    UL col       column non-basic at upper                                 *)
(*    LL col       column non-basic at lower                                 *)
(* and ENDATA.  Defaults when reading: every column non-basic at lower, every  *)
(* row basic; a non-basic column at lower without any bound is free.           *)
(* The writer pairs the k-th non-basic row with the k-th basic column.         *)
(***************************************************************************)
EXTENDS Integers, Sequences, FiniteSets

\* positions with a given property, in increasing order
Positions(s, P(_)) == SelectSeq([k \in 1..Len(s) |-> k], LAMBDA k : P(s[k]))

\* lines (records) the writer must produce for basis (cstat, rstat) with names cn, rn; <<>> marks "cannot be written"
Write(cstat, rstat, cn, rn) ==
  LET nbr == Positions(rstat, LAMBDA x : x # "1")       \* non-basic rows
      bc  == Positions(cstat, LAMBDA x : x = "1")       \* basic columns
  IN [k \in 1..Len(nbr) |-> [t |-> IF rstat[nbr[k]] = "0" THEN "XL" ELSE "XU", c |-> cn[bc[k]], r |-> rn[nbr[k]]]]
     \o LET up == Positions(cstat, LAMBDA x : x = "2") IN [k \in 1..Len(up) |-> [t |-> "UL", c |-> cn[up[k]], r |-> ""]]
Writable(cstat, rstat) == Len(Positions(rstat, LAMBDA x : x # "1")) <= Len(Positions(cstat, LAMBDA x : x = "1"))

Index(names, nm) == CHOOSE k \in 1..Len(names) : names[k] = nm
\* reading: lines -> (cstat, rstat); free(j) tells whether column j has no bound at all
RECURSIVE Apply(_, _, _, _, _)
Apply(lines, k, B, cn, rn) ==
  IF k > Len(lines) THEN B
  ELSE LET l == lines[k] IN
       Apply(lines, k + 1,
             CASE l.t \in {"XL", "XU"} -> [cstat |-> [B.cstat EXCEPT ![Index(cn, l.c)] = "1"],
                                           rstat |-> [B.rstat EXCEPT ![Index(rn, l.r)] = IF l.t = "XL" THEN "0" ELSE "2"]]
               [] l.t = "UL" -> [B EXCEPT !.cstat[Index(cn, l.c)] = "2"]
               [] l.t = "LL" -> [B EXCEPT !.cstat[Index(cn, l.c)] = "0"]
               [] OTHER -> B,
             cn, rn)
Read(lines, cn, rn, free) ==
  LET B0 == [cstat |-> [j \in 1..Len(cn) |-> "0"], rstat |-> [i \in 1..Len(rn) |-> "1"]]
      B1 == Apply(lines, 1, B0, cn, rn)
  IN [cstat |-> [j \in 1..Len(cn) |-> IF B1.cstat[j] = "0" /\ free[j] THEN "3" ELSE B1.cstat[j]], rstat |-> B1.rstat]
WellFormedLines(lines, cn, rn) ==
  \A k \in 1..Len(lines) : /\ lines[k].t \in {"XL", "XU", "UL", "LL"}
                           /\ lines[k].c \in {cn[j] : j \in 1..Len(cn)}
                           /\ (lines[k].t \in {"XL", "XU"} => lines[k].r \in {rn[i] : i \in 1..Len(rn)})
\* same basic set, same at-upper assignments; non-basic free columns may come back free instead of at-lower
SameBasis(c1, r1, c2, r2, free) ==
  /\ Len(c1) = Len(c2) /\ Len(r1) = Len(r2) /\ r1 = r2
  /\ \A j \in 1..Len(c1) : c1[j] = c2[j] \/ ({c1[j], c2[j]} \subseteq {"0", "3"} /\ free[j])
=============================================================================
