CONSTANTS N = 3 Vals = {"0", "1", "-1"} Depth = 1 EtaMax = 1 Gen = FALSE
SPECIFICATION Spec
INVARIANT ValidIsNonsingular RepairExists RepairTerminates
VIEW MCView
CHECK_DEADLOCK FALSE
