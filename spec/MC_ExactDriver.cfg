CONSTANT MaxMpf = 12
SPECIFICATION Spec
INVARIANT OptimalOnlyAfterTest InfeasibleOnlyAfterTest OthersOnlyAtExhaustion LadderBounded NoStuck
CHECK_DEADLOCK FALSE
