CONSTANT Family = "namesq"
SPECIFICATION Spec
INVARIANT ReadsBackTheSame
INVARIANT NumbersSurvive
INVARIANT TokensSane
INVARIANT NamesRepaired
CHECK_DEADLOCK FALSE
