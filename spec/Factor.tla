------------------------------- MODULE Factor -------------------------------
(***************************************************************************)
(* The sparse LU component (factor.c) as the simplex code uses it            *)
(* (basis.c: ILLbasis_factor / ILLbasis_update), in exact arithmetic.        *)
(*                                                                         *)
(* Abstract state: the CURRENT BASIS MATRIX the caller means,                *)
(*   M = [n |-> dimension, col |-> Seq over basis positions 1..n of sparse   *)
(*        columns, each a Seq of [j |-> row, v |-> value]],                  *)
(* a flag `valid` (the factor work represents M and may be used for solves)  *)
(* and the number of updates since the last refactorisation.                 *)
(*                                                                         *)
(* Protocol (one action per entry point):                                   *)
(*   Refactor            ILLfactor: valid' <=> M non-singular; a singular M   *)
(*                       must be REPORTED (nsing > 0), never solved          *)
(*   Update(pos, a)      ILLfactor_ftran_update + ILLfactor_update: the       *)
(*                       caller's matrix becomes M[pos := a] in every case;   *)
(*                       the work stays valid only if the call returned 0     *)
(*                       without a refactor request, and that is allowed      *)
(*                       only when the new matrix is non-singular             *)
(*   Ftran(a) / Btran(c) only when valid; the result satisfies M x = a,       *)
(*                       y^T M = c^T EXACTLY (no tolerance: the mpq instance) *)
(* The postconditions below are what TLC evaluates on the vectors the real    *)
(* component returned (TraceFactor.tla); MC_Factor model-checks the protocol  *)
(* on all small integer matrices and generates the short histories that are   *)
(* replayed on the real component.                                          *)
(***************************************************************************)
EXTENDS Integers, Sequences, FiniteSets, BigRat

ZeroVec(n) == [i \in 1..n |-> "0"]

\* dense vector of a sparse list (repeated indices add up)
RECURSIVE DenseAcc(_, _, _)
DenseAcc(sp, k, acc) == IF k > Len(sp) THEN acc ELSE DenseAcc(sp, k + 1, [acc EXCEPT ![sp[k].j] = RAdd(@, sp[k].v)])
Dense(n, sp) == DenseAcc(sp, 1, ZeroVec(n))
InRange(n, sp) == \A k \in 1..Len(sp) : sp[k].j \in 1..n
NoRepeat(sp) == \A p, q \in 1..Len(sp) : p # q => sp[p].j # sp[q].j

\* acc + t * column
RECURSIVE AxpyCol(_, _, _, _)
AxpyCol(col, k, t, acc) == IF k > Len(col) THEN acc ELSE AxpyCol(col, k + 1, t, [acc EXCEPT ![col[k].j] = RAdd(@, RMul(t, col[k].v))])
\* M x for a sparse x over basis positions
RECURSIVE MulAcc(_, _, _, _)
MulAcc(M, x, k, acc) == IF k > Len(x) THEN acc ELSE MulAcc(M, x, k + 1, IF x[k].v = "0" THEN acc ELSE AxpyCol(M.col[x[k].j], 1, x[k].v, acc))
Mul(M, x) == MulAcc(M, x, 1, ZeroVec(M.n))
\* y^T M for a dense y over rows: one entry per basis position
RECURSIVE DotCol(_, _, _, _)
DotCol(col, k, y, acc) == IF k > Len(col) THEN acc ELSE DotCol(col, k + 1, y, RAdd(acc, RMul(col[k].v, y[col[k].j])))
TMul(M, y) == [p \in 1..M.n |-> DotCol(M.col[p], 1, y, "0")]

\* ---------------------------------------------------------------- postconditions
FtranOK(M, a, x) == InRange(M.n, x) /\ NoRepeat(x) /\ Mul(M, x) = Dense(M.n, a)
BtranOK(M, c, y) == InRange(M.n, y) /\ NoRepeat(y) /\ TMul(M, Dense(M.n, y)) = Dense(M.n, c)
\* z is a non-zero vector of the null space: M is singular
NullWitnessOK(M, z) == InRange(M.n, z) /\ (\E k \in 1..Len(z) : z[k].v # "0") /\ NoRepeat(z) /\ Mul(M, z) = ZeroVec(M.n)
Replace(M, pos, a) == [M EXCEPT !.col[pos] = a]
\* M non-singular and M x = a:  M[pos := a] is singular  <=>  x_pos = 0
EntryAt(x, pos) == LET h == {k \in 1..Len(x) : x[k].j = pos} IN IF h = {} THEN "0" ELSE x[CHOOSE k \in h : TRUE].v
\* the singular report of ILLfactor: nsing pairs (row, position), all distinct, inside the matrix
SingReportOK(n, nsing, rows, cols) ==
  /\ nsing = Len(rows) /\ nsing = Len(cols) /\ nsing \in 1..n
  /\ \A k \in 1..nsing : rows[k] \in 1..n /\ cols[k] \in 1..n
  /\ \A p, q \in 1..nsing : p # q => rows[p] # rows[q] /\ cols[p] # cols[q]
\* what basis.c does with the report: position cols[k] gets the unit column of row rows[k]
RECURSIVE Repair(_, _, _, _)
Repair(M, rows, cols, k) == IF k > Len(rows) THEN M ELSE Repair(Replace(M, cols[k], <<[j |-> rows[k], v |-> "1"]>>), rows, cols, k + 1)

\* ---------------------------------------------------------------- small dimensions: determinant (model checking only)
E(M, i, p) == EntryAt(M.col[p], i)      \* entry (row i, position p); columns without repeats
Det(M) == CASE M.n = 1 -> E(M, 1, 1)
            [] M.n = 2 -> RSub(RMul(E(M, 1, 1), E(M, 2, 2)), RMul(E(M, 1, 2), E(M, 2, 1)))
            [] OTHER -> RAdd(RSub(RMul(E(M, 1, 1), RSub(RMul(E(M, 2, 2), E(M, 3, 3)), RMul(E(M, 2, 3), E(M, 3, 2)))),
                                  RMul(E(M, 1, 2), RSub(RMul(E(M, 2, 1), E(M, 3, 3)), RMul(E(M, 2, 3), E(M, 3, 1))))),
                             RMul(E(M, 1, 3), RSub(RMul(E(M, 2, 1), E(M, 3, 2)), RMul(E(M, 2, 2), E(M, 3, 1)))))
Singular(M) == Det(M) = "0"
=============================================================================
