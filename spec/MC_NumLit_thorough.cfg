CONSTANT MaxLen = 7
SPECIFICATION Spec
INVARIANT ScannerRefinesDenotation NeverOverruns PrefixStable
CHECK_DEADLOCK FALSE
