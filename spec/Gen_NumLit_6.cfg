CONSTANT MaxLen = 6
SPECIFICATION Spec
INVARIANT Emit
CHECK_DEADLOCK FALSE
