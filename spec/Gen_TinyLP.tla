----------------------------- MODULE Gen_TinyLP -----------------------------
(* The exhaustively enumerated tiny LP family (C03, C12): every LP with M rows and N columns over
   coefficients {-1,0,1,2}, right-hand sides {0,1}, objective {-1,0,1}, senses L/G/E/R (range 1),
   bound shapes [0,inf), [0,1], free, (-inf,0], min and max.  TLC enumerates the family (each LP is an
   initial state) and writes it, one JSON object per line, to $GENOUT; the harness turns each into a
   scenario "build, solve with every entry point", adds an untrusted witness of the true status, and
   TLC (Trace.tla) verifies witness and results. *)
EXTENDS Integers, Sequences, TLC, Json, CSV, IOUtils
CONSTANTS M, N
VARIABLE lp
Coef == {"-1", "0", "1", "2"}
Rhs  == {"0", "1"}
Obj  == {"-1", "0", "1"}
Sense == {"L", "G", "E", "R"}
Bnd == {<<"0", "inf">>, <<"0", "1">>, <<"-inf", "inf">>, <<"-inf", "0">>}
Row(f) == LET nz == SelectSeq([j \in 1..N |-> [j |-> j, v |-> f[j]]], LAMBDA e : e.v # "0") IN nz
Init == \E A \in [1..M -> [1..N -> Coef]], s \in [1..M -> Sense], r \in [1..M -> Rhs], c \in [1..N -> Obj], b \in [1..N -> Bnd], mx \in BOOLEAN :
          lp = [m |-> M, n |-> N, A |-> [i \in 1..M |-> Row(A[i])], sense |-> s, rhs |-> r,
                range |-> [i \in 1..M |-> IF s[i] = "R" THEN "1" ELSE "0"],
                obj |-> c, lo |-> [j \in 1..N |-> b[j][1]], up |-> [j \in 1..N |-> b[j][2]], max |-> mx]
Next == UNCHANGED lp
Spec == Init /\ [][Next]_lp
GenOut == IF "GENOUT" \in DOMAIN IOEnv THEN IOEnv.GENOUT ELSE "/dev/null"
Emit == CSVWrite("%1$s", <<ToJson(lp)>>, GenOut)
=============================================================================
