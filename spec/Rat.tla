--------------------------------- MODULE Rat ---------------------------------
(***************************************************************************)
(* Pure TLA+ rationals as normalised pairs <<num, den>>, den > 0, gcd = 1.   *)
(* Used (i) as the definition the Java override BigRat is checked against    *)
(* (MC_RatAgree) and (ii) wherever small numbers suffice.                    *)
(***************************************************************************)
EXTENDS Integers, Sequences
Abs(n) == IF n < 0 THEN -n ELSE n
RECURSIVE Gcd(_, _)
Gcd(a, b) == IF b = 0 THEN a ELSE Gcd(b, a % b)
Norm(n, d) == LET s == IF d < 0 THEN -1 ELSE 1
                  g == Gcd(Abs(n), Abs(d))
              IN IF n = 0 THEN <<0, 1>> ELSE <<(s * n) \div g, (s * d) \div g>>
QAdd(a, b) == Norm(a[1] * b[2] + b[1] * a[2], a[2] * b[2])
QSub(a, b) == Norm(a[1] * b[2] - b[1] * a[2], a[2] * b[2])
QMul(a, b) == Norm(a[1] * b[1], a[2] * b[2])
QDiv(a, b) == Norm(a[1] * b[2], a[2] * b[1])
QNeg(a)    == <<-a[1], a[2]>>
QAbs(a)    == <<Abs(a[1]), a[2]>>
QLeq(a, b) == a[1] * b[2] <= b[1] * a[2]
QLt(a, b)  == a[1] * b[2] < b[1] * a[2]
QSign(a)   == IF a[1] > 0 THEN 1 ELSE IF a[1] < 0 THEN -1 ELSE 0
=============================================================================
