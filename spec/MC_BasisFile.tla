----------------------------- MODULE MC_BasisFile -----------------------------
(* For every shape with at most N columns and M rows (which columns are free, which rows are range rows)
   and EVERY valid basis of that shape: reading what the writer writes gives the same basis back. *)
EXTENDS Integers, Sequences, FiniteSets, TLC
CONSTANTS N, M
BF == INSTANCE BasisFile
VARIABLES n, m, free, ranged, cstat, rstat
vars == <<n, m, free, ranged, cstat, rstat>>
CN(k) == [j \in 1..k |-> "x" \o ToString(j)]
RN(k) == [i \in 1..k |-> "r" \o ToString(i)]
ColStats(f) == IF f THEN {"1", "3"} ELSE {"0", "1", "2"}
RowStats(g) == IF g THEN {"0", "1", "2"} ELSE {"0", "1"}
Init == /\ n \in 0..N /\ m \in 0..M
        /\ free \in [1..n -> BOOLEAN] /\ ranged \in [1..m -> BOOLEAN]
        /\ cstat \in [1..n -> {"0", "1", "2", "3"}] /\ rstat \in [1..m -> {"0", "1", "2"}]
        /\ \A j \in 1..n : cstat[j] \in ColStats(free[j])
        /\ \A i \in 1..m : rstat[i] \in RowStats(ranged[i])
        /\ Cardinality({j \in 1..n : cstat[j] = "1"}) + Cardinality({i \in 1..m : rstat[i] = "1"}) = m
Next == UNCHANGED vars
Spec == Init /\ [][Next]_vars
RoundTrip ==
  /\ BF!Writable(cstat, rstat)
  /\ LET lines == BF!Write(cstat, rstat, CN(n), RN(m))
         B == BF!Read(lines, CN(n), RN(m), free)
     IN BF!WellFormedLines(lines, CN(n), RN(m)) /\ BF!SameBasis(cstat, rstat, B.cstat, B.rstat, free)
=============================================================================
