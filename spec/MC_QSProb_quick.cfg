CONSTANTS MaxRows = 2 MaxCols = 2 Depth = 2
SPECIFICATION Spec
INVARIANT ShapeInv FailAtomic UndoLaw DeleteLaw ContentLaw
VIEW MCView
CHECK_DEADLOCK FALSE
