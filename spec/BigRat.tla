------------------------------- MODULE BigRat -------------------------------
(***************************************************************************)
(* Exact rationals of arbitrary magnitude for TLC.  A rational is the       *)
(* canonical string GMP prints for an mpq_t: "p/q" with q > 1, gcd(p,q) = 1,*)
(* or "p" when the denominator is 1 ("-17/3", "5", "0").  The operators are *)
(* evaluated by the Java module override java/BigRat.java (TLC integers are  *)
(* 32 bit, the solver's numbers have hundreds of digits).  The bodies below  *)
(* are placeholders that TLC never evaluates; spec/MC_RatAgree binds the     *)
(* override to the pure TLA+ definition in Rat.tla.                          *)
(***************************************************************************)
LOCAL Undef == CHOOSE x \in {} : TRUE
RAdd(a, b) == Undef
RSub(a, b) == Undef
RMul(a, b) == Undef
RDiv(a, b) == Undef      \* b # 0
RNeg(a)    == Undef
RAbs(a)    == Undef
RLeq(a, b) == Undef      \* BOOLEAN
RLt(a, b)  == Undef      \* BOOLEAN
RSign(a)   == Undef      \* -1, 0, 1
RCanon(a)  == Undef      \* canonical form of "p/q" given with any p, q # 0
RPow2(k)   == Undef      \* 2^k, k any integer
RPow10(k)  == Undef      \* 10^k, k any integer
RFrac(n, d) == Undef     \* n/d from TLC integers, d # 0
RLog2(a)   == Undef      \* floor(log2 |a|), a # 0
RIsRat(a)  == Undef      \* a is a canonical rational string
RChars(a)  == Undef      \* the characters of the string a, as a sequence of 1-character strings
RJoin(s)   == Undef      \* concatenation of a sequence of strings (inverse of RChars)
=============================================================================
