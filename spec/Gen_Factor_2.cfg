CONSTANTS N = 2 Vals = {"-1", "0", "1", "2"} Depth = 2 EtaMax = 1 Gen = TRUE
SPECIFICATION Spec
INVARIANT Emit
CHECK_DEADLOCK FALSE
