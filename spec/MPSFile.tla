------------------------------- MODULE MPSFile -------------------------------
(***************************************************************************)
(* What an MPS file DENOTES, from its structured content (sections in file    *)
(* order, every numeric field character by character):                       *)
(*  tree = [ objsense : "" or a MAX/MIN spelling (upper case),                *)
(*           objrow   : name of the first N row, nrows : further N rows,      *)
(*           objname  : "" or the row named in an OBJNAME section,            *)
(*           sos, refrow : SOS marker groups and a REFROW section - they       *)
(*                      restrict integer solutions only and are not part of    *)
(*                      the linear program the file denotes,                   *)
(*           rows     : Seq([t : "L"|"G"|"E", name]),                          *)
(*           cols     : Seq([col, ent : Seq([row, val]), integer]),            *)
(*           rhs, ranges : Seq([row, val]),  bounds : Seq([t, col, val]) ]     *)
(* Rules: repeated (column,row) entries add up; entries on further N rows are  *)
(* dropped; RANGES turn a row into rhs <= a.x <= rhs + range with              *)
(*   G: [rhs, rhs+|r|]   L: [rhs-|r|, rhs]   E: r>=0 [rhs, rhs+r], r<0 [rhs+r, rhs];*)
(* bounds: defaults [0, inf); UP LO FX FR MI PL BV LI UI; the first definition  *)
(* of a side wins; UP with a negative value and no lower bound given sets the   *)
(* lower bound to -inf; integer columns without any bound are binary.           *)
(***************************************************************************)
EXTENDS Integers, Sequences, FiniteSets, BigRat
NL == INSTANCE NumLit

MaxWords == {"MAX", "MAXIMIZE"}
Val(chs) == NL!Value(chs)
Idx(seq, x) == CHOOSE k \in 1..Len(seq) : seq[k] = x
Has(seq, x) == \E k \in 1..Len(seq) : seq[k] = x

RECURSIVE SumEnt(_, _, _, _)
SumEnt(ent, k, row, acc) == IF k > Len(ent) THEN acc ELSE SumEnt(ent, k + 1, row, IF ent[k].row = row THEN RAdd(acc, Val(ent[k].val)) ELSE acc)
HasEnt(ent, row) == \E k \in 1..Len(ent) : ent[k].row = row
FirstVal(list, row, dflt) == LET h == {k \in 1..Len(list) : list[k].row = row} IN
                             IF h = {} THEN dflt ELSE Val(list[CHOOSE k \in h : \A q \in h : k <= q].val)

RECURSIVE ApplyBounds(_, _, _)
ApplyBounds(bs, k, B) ==
  IF k > Len(bs) THEN B
  ELSE LET e == bs[k]
           cur == B[e.col]
           setLo(c, v) == IF c.hasLo THEN c ELSE [c EXCEPT !.lo = v, !.hasLo = TRUE]
           setUp(c, v) == IF c.hasUp THEN c ELSE [c EXCEPT !.up = v, !.hasUp = TRUE]
           int(c) == [c EXCEPT !.int = TRUE]
           new == CASE e.t = "UP" -> setUp(cur, Val(e.val))
                    [] e.t = "LO" -> setLo(cur, Val(e.val))
                    [] e.t = "FX" -> setUp(setLo(cur, Val(e.val)), Val(e.val))
                    [] e.t = "FR" -> setUp(setLo(cur, "-inf"), "inf")
                    [] e.t = "MI" -> setLo(cur, "-inf")
                    [] e.t = "PL" -> setUp(cur, "inf")
                    [] e.t = "BV" -> int(setUp(setLo(cur, "0"), "1"))
                    [] e.t = "LI" -> int(setLo(cur, Val(e.val)))
                    [] OTHER -> int(setUp(cur, Val(e.val)))        \* UI
       IN ApplyBounds(bs, k + 1, [B EXCEPT ![e.col] = new])

\* the objective is the N row named by the OBJNAME section, otherwise the first N row of the ROWS section
ObjRow(tree) == IF "objname" \in DOMAIN tree /\ tree.objname # "" THEN tree.objname ELSE tree.objrow

Denote(tree) ==
  LET rows == tree.rows
      m == Len(rows)
      RowNames == {rows[i].name : i \in 1..m}
      \* a column whose entries all lie in N rows other than the objective does not exist in the problem
      \* (rawlp.c: "is used in non objective 'N' rows only"); its bounds are ignored with it
      Used(c) == \E k \in 1..Len(c.ent) : c.ent[k].row = ObjRow(tree) \/ c.ent[k].row \in RowNames
      cols == SelectSeq(tree.cols, Used)
      n == Len(cols)
      cname == [j \in 1..n |-> cols[j].col]
      B0 == [c \in {tree.cols[j].col : j \in 1..Len(tree.cols)} |-> [lo |-> "0", up |-> "inf", hasLo |-> FALSE, hasUp |-> FALSE, int |-> FALSE]]
      B == ApplyBounds(tree.bounds, 1, B0)
      isint(j) == cols[j].integer \/ B[cname[j]].int
      lo(j) == LET b == B[cname[j]] IN IF ~b.hasLo /\ b.hasUp /\ b.up # "inf" /\ RSign(b.up) < 0 THEN "-inf" ELSE b.lo
      up(j) == LET b == B[cname[j]] IN IF isint(j) /\ ~b.hasLo /\ ~b.hasUp THEN "1" ELSE b.up
      rhs0(i) == FirstVal(tree.rhs, rows[i].name, "0")
      hasRange(i) == \E k \in 1..Len(tree.ranges) : tree.ranges[k].row = rows[i].name
      rng(i) == FirstVal(tree.ranges, rows[i].name, "0")
      sense(i) == IF hasRange(i) THEN "R" ELSE rows[i].t
      \* lower end of the interval
      rhs(i) == IF ~hasRange(i) THEN rhs0(i)
                ELSE CASE rows[i].t = "G" -> rhs0(i)
                       [] rows[i].t = "L" -> RSub(rhs0(i), RAbs(rng(i)))
                       [] OTHER -> IF RSign(rng(i)) >= 0 THEN rhs0(i) ELSE RAdd(rhs0(i), rng(i))
      rowEnt(i) == LET js == SelectSeq([j \in 1..n |-> j], LAMBDA j : HasEnt(cols[j].ent, rows[i].name))
                   IN [q \in 1..Len(js) |-> [j |-> js[q], v |-> SumEnt(cols[js[q]].ent, 1, rows[i].name, "0")]]
  IN [m |-> m, n |-> n,
      A |-> [i \in 1..m |-> rowEnt(i)],
      sense |-> [i \in 1..m |-> sense(i)],
      rhs |-> [i \in 1..m |-> rhs(i)],
      range |-> [i \in 1..m |-> IF hasRange(i) THEN RAbs(rng(i)) ELSE "0"],
      rname |-> [i \in 1..m |-> rows[i].name],
      obj |-> [j \in 1..n |-> SumEnt(cols[j].ent, 1, ObjRow(tree), "0")],
      lo |-> [j \in 1..n |-> lo(j)], up |-> [j \in 1..n |-> up(j)],
      cname |-> cname, isint |-> [j \in 1..n |-> IF isint(j) THEN 1 ELSE 0],
      max |-> tree.objsense \in MaxWords]
=============================================================================
