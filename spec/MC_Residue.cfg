SPECIFICATION Spec
INVARIANT NoStaleSolution SolutionMeansOptimal EditMarksModified RejectedChangesNothing
CHECK_DEADLOCK FALSE
