CONSTANT N = 6
INIT Init
NEXT Next
INVARIANT Agree
CHECK_DEADLOCK FALSE
