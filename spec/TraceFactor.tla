----------------------------- MODULE TraceFactor -----------------------------
(***************************************************************************)
(* Trace specification for the LU component: every call harness/facx made     *)
(* against factor.c (one NDJSON record per call) is a step of the protocol of  *)
(* Factor.tla, and every vector the component returned satisfies its exact      *)
(* postcondition with respect to the specification's OWN copy of the matrix.    *)
(* Total, like Trace.tla: a step that is not allowed adds a verdict and         *)
(* validation goes on.  Indices are 0-based in the records, 1-based here.       *)
(***************************************************************************)
EXTENDS Factor, TLC, Json, IOUtils

Tr == ndJsonDeserialize(IOEnv.TRACE)
VerdictFile == IOEnv.VERDICT

VARIABLES l, M, valid, rep, known, rounds, viol, cnt
vars == <<l, M, valid, rep, known, rounds, viol, cnt>>

NoM == [n |-> 0, col |-> <<>>]
V(ev, props, why) == [n |-> ev.n, call |-> ev.call, props |-> props, why |-> why]
Conv(sp) == [k \in 1..Len(sp) |-> [j |-> sp[k].j + 1, v |-> sp[k].v]]
ConvM(ev) == [n |-> ev.dim, col |-> [p \in 1..Len(ev.M) |-> Conv(ev.M[p])]]
Inc(seq) == [k \in 1..Len(seq) |-> seq[k] + 1]
Unit(n, k) == [i \in 1..n |-> IF i = k THEN "1" ELSE "0"]
P13 == {"C13"}

Init == l = 1 /\ M = NoM /\ valid = FALSE /\ rep = [rows |-> <<>>, cols |-> <<>>] /\ known = "" /\ rounds = 0 /\ viol = {}
        /\ cnt = [events |-> 0, scenarios |-> 0, factors |-> 0, singular |-> 0, updates |-> 0, refused |-> 0, ftran |-> 0, btran |-> 0,
                  maxetas |-> 0, rerepairs |-> 0, witnesses |-> 0, skipped |-> 0]

Next ==
  /\ l <= Len(Tr)
  /\ l' = l + 1
  /\ LET ev == Tr[l] IN
       /\ IF ev.call = "scenario" THEN
             /\ M' = NoM /\ valid' = FALSE /\ known' = "" /\ rounds' = 0 /\ viol' = viol /\ UNCHANGED rep
          ELSE IF ev.call = "matrix" THEN
             /\ M' = ConvM(ev) /\ valid' = FALSE /\ known' = "" /\ rounds' = 0 /\ viol' = viol /\ UNCHANGED rep
          ELSE IF ev.call = "wit_null" THEN
             \* untrusted witness: a non-zero vector of the null space of the current matrix
             LET ok == NullWitnessOK(M, Conv(ev.z)) IN
             /\ known' = IF ok THEN "singular" ELSE known
             /\ viol' = viol \cup (IF ok THEN {} ELSE {V(ev, {"HARNESS"}, "null-space witness does not verify")})
             /\ UNCHANGED <<M, valid, rep, rounds>>
          ELSE IF ev.call = "wit_inv" THEN
             \* untrusted witness: the inverse, column by column
             LET ok == Len(ev.W) = M.n /\ \A k \in 1..M.n : InRange(M.n, Conv(ev.W[k])) /\ NoRepeat(Conv(ev.W[k])) /\ Mul(M, Conv(ev.W[k])) = Unit(M.n, k) IN
             /\ known' = IF ok THEN "nonsingular" ELSE known
             /\ viol' = viol \cup (IF ok THEN {} ELSE {V(ev, {"HARNESS"}, "inverse witness does not verify")})
             /\ UNCHANGED <<M, valid, rep, rounds>>
          ELSE IF ev.call = "factor" THEN
             LET same == ConvM(ev) = M
                 M1 == ConvM(ev)
                 repOK == ev.nsing > 0 => SingReportOK(M1.n, ev.nsing, Inc(ev.srows), Inc(ev.scols)) IN
             /\ M' = M1
             /\ valid' = (ev.rval = 0 /\ ev.nsing = 0)
             /\ rep' = IF ev.nsing > 0 /\ repOK THEN [rows |-> Inc(ev.srows), cols |-> Inc(ev.scols)] ELSE [rows |-> <<>>, cols |-> <<>>]
             /\ rounds' = IF ev.nsing > 0 THEN rounds + 1 ELSE 0
             /\ known' = IF ev.nsing = 0 THEN "" ELSE known
             /\ viol' = viol
                  \cup (IF same THEN {} ELSE {V(ev, {"HARNESS"}, "the driver's matrix is not the specification's matrix")})
                  \cup (IF ev.rval # 0 THEN {V(ev, P13, "ILLfactor fails (rval " \o ToString(ev.rval) \o ") on a well-formed matrix")} ELSE {})
                  \cup (IF ev.rval = 0 /\ ev.nsing = 0 /\ same /\ known = "singular"
                        THEN {V(ev, P13, "a singular matrix (null vector verified) is factored without a singular report")} ELSE {})
                  \cup (IF ev.rval = 0 /\ ev.nsing > 0 /\ same /\ known = "nonsingular"
                        THEN {V(ev, P13, "a non-singular matrix (inverse verified) is reported singular")} ELSE {})
                  \cup (IF ev.rval = 0 /\ ~repOK THEN {V(ev, P13, "malformed singular report: nsing " \o ToString(ev.nsing) \o " rows " \o ToString(ev.srows) \o " positions " \o ToString(ev.scols))} ELSE {})
                  \cup (IF ev.rval = 0 /\ ev.nsing > 0 /\ rounds > M1.n THEN {V(ev, P13, "the repair loop of the singular report does not terminate")} ELSE {})
          ELSE IF ev.call = "repair" THEN
             /\ M' = Repair(M, rep.rows, rep.cols, 1)
             /\ valid' = FALSE /\ known' = "" /\ viol' = viol /\ UNCHANGED <<rep, rounds>>
          ELSE IF ev.call = "update" THEN
             LET a == Conv(ev.a)  x == Conv(ev.x)  pos == ev.pos + 1
                 solved == FtranOK(M, a, x)
                 kept == ev.rval = 0 /\ ev.refact = 0 IN
             /\ M' = Replace(M, pos, a)
             /\ valid' = kept
             /\ known' = "" /\ rounds' = 0 /\ UNCHANGED rep
             /\ viol' = viol
                  \cup (IF valid THEN {} ELSE {V(ev, {"HARNESS"}, "update on an unusable factorisation")})
                  \cup (IF valid /\ ~solved THEN {V(ev, P13, "ftran_update: B x = a does not hold exactly (" \o ToString(ev.etas) \o " updates since the last refactorisation)")} ELSE {})
                  \cup (IF valid /\ solved /\ kept /\ EntryAt(x, pos) = "0"
                        THEN {V(ev, P13, "a column replacement that makes the basis singular (pivot entry 0) is accepted")} ELSE {})
          ELSE IF ev.call \in {"ftran", "btran"} THEN
             LET a == Conv(ev.a)  x == Conv(ev.x)
                 ok == IF ev.call = "ftran" THEN FtranOK(M, a, x) ELSE BtranOK(M, a, x) IN
             /\ viol' = viol
                  \cup (IF valid THEN {} ELSE {V(ev, {"HARNESS"}, "solve on an unusable factorisation")})
                  \cup (IF valid /\ ~ok THEN {V(ev, P13, ev.call \o " is not exact: " \o (IF ev.call = "ftran" THEN "B x = a" ELSE "y^T B = c^T") \o " does not hold ("
                                                       \o ToString(ev.etas) \o " updates since the last refactorisation, dimension " \o ToString(M.n) \o ")")} ELSE {})
             /\ UNCHANGED <<M, valid, rep, known, rounds>>
          ELSE IF ev.call = "memcheck" THEN
             /\ viol' = viol \cup (IF ev.errors > 0 THEN {V(ev, {"C17"}, "valgrind memcheck reports " \o ToString(ev.errors) \o " error(s): " \o ev.kinds \o " at " \o ev.sites)} ELSE {})
             /\ UNCHANGED <<M, valid, rep, known, rounds>>
          ELSE IF ev.call = "shutdown" THEN
             /\ viol' = viol \cup (IF ev.leak > 0 THEN {V(ev, {"C18"}, "memory allocated by the LU component is still unreleased after the factor work was freed and the library shut down (LeakSanitizer)")} ELSE {})
             /\ UNCHANGED <<M, valid, rep, known, rounds>>
          ELSE IF ev.call = "CRASH" THEN
             /\ viol' = viol \cup {V(ev, {"C13", "C17"}, "the component crashed or did not return: " \o (IF "why" \in DOMAIN ev THEN ev.why ELSE "crash"))}
             /\ M' = NoM /\ valid' = FALSE /\ known' = "" /\ rounds' = 0 /\ UNCHANGED rep
          ELSE
             /\ viol' = viol /\ UNCHANGED <<M, valid, rep, known, rounds>>
       /\ cnt' = [cnt EXCEPT !.events = @ + 1,
                             !.scenarios = @ + (IF ev.call = "scenario" THEN 1 ELSE 0),
                             !.factors = @ + (IF ev.call = "factor" THEN 1 ELSE 0),
                             !.singular = @ + (IF ev.call = "factor" /\ ev.nsing > 0 THEN 1 ELSE 0),
                             !.updates = @ + (IF ev.call = "update" THEN 1 ELSE 0),
                             !.refused = @ + (IF ev.call = "update" /\ (ev.rval # 0 \/ ev.refact # 0) THEN 1 ELSE 0),
                             !.ftran = @ + (IF ev.call = "ftran" THEN 1 ELSE 0),
                             !.btran = @ + (IF ev.call = "btran" THEN 1 ELSE 0),
                             !.maxetas = IF ev.call \in {"ftran", "btran"} /\ ev.etas > @ THEN ev.etas ELSE @,
                             !.rerepairs = @ + (IF ev.call = "factor" /\ ev.nsing > 0 /\ rounds > 0 THEN 1 ELSE 0),
                             !.witnesses = @ + (IF ev.call \in {"wit_null", "wit_inv"} THEN 1 ELSE 0),
                             !.skipped = @ + (IF ev.call = "skipped" THEN 1 ELSE 0)]

Spec == Init /\ [][Next]_vars

RECURSIVE SetToSeqR(_)
SetToSeqR(X) == IF X = {} THEN <<>> ELSE LET x == CHOOSE x \in X : TRUE IN <<x>> \o SetToSeqR(X \ {x})
Export ==
  l = Len(Tr) + 1 =>
    ndJsonSerialize(VerdictFile, <<[kind |-> "summary", consumed |-> l - 1, len |-> Len(Tr), cnt |-> cnt, nviol |-> Cardinality(viol)]>>
        \o [k \in 1..Cardinality(viol) |-> LET x == SetToSeqR(viol)[k] IN
              [kind |-> "verdict", n |-> x.n, call |-> x.call, props |-> SetToSeqR(x.props), why |-> x.why]])
=============================================================================
