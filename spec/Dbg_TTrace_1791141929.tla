---- MODULE Dbg_TTrace_1791141929 ----
EXTENDS Sequences, TLCExt, Toolbox, Dbg, Naturals, TLC

_expression ==
    LET Dbg_TEExpression == INSTANCE Dbg_TEExpression
    IN Dbg_TEExpression!expression
----

_trace ==
    LET Dbg_TETrace == INSTANCE Dbg_TETrace
    IN Dbg_TETrace!trace
----

_inv ==
    ~(
        TLCGet("level") = Len(_TETrace)
        /\
        st = ([h2 |-> [live |-> FALSE], h0 |-> [live |-> TRUE, lp |-> [n |-> 4, A |-> <<<<[v |-> "3", j |-> 1], [v |-> "2", j |-> 2], [v |-> "1", j |-> 3]>>, <<[v |-> "5", j |-> 1], [v |-> "1", j |-> 2]>>>>, m |-> 2, sense |-> <<"L", "E">>, rhs |-> <<"12", "10">>, range |-> <<"0", "0">>, rname |-> <<"c1", "c2">>, obj |-> <<"3", "2", "4">>, lo |-> <<"2", "-inf", "1">>, up |-> <<"inf", "inf", "10">>, cname |-> <<"?", "?", "?", "?">>, isint |-> <<0, 0, 0>>, max |-> TRUE], sync |-> TRUE, par |-> [ppricing |-> 3, dpricing |-> 7, display |-> 0, maxiter |-> 500000, scaling |-> 1, objulim |-> "inf", objllim |-> "-inf", maxtime |-> "300000"], pend |-> {}, obs |-> [none |-> TRUE], taint |-> {}, mut |-> TRUE, edited |-> FALSE, truth |-> [none |-> TRUE], limits |-> FALSE], h1 |-> [live |-> FALSE], h3 |-> [live |-> FALSE], h4 |-> [live |-> FALSE], h5 |-> [live |-> FALSE], h6 |-> [live |-> FALSE], h7 |-> [live |-> FALSE]])
        /\
        ans = ({})
        /\
        viol = ({[props |-> {"C06"}, why |-> "query results differ from the reference model: {\"parameters\", \"row/column count\"}", n |-> 4, call |-> "dump"]})
        /\
        glob = ([handler |-> TRUE, prec |-> 128])
        /\
        cnt = ([events |-> 4, dumps |-> 1, edits |-> 0, rejected |-> 0, optcerts |-> 0, farkas |-> 0, unb |-> 0, solves |-> 0, solobs |-> 0, witnesses |-> 0, agree |-> 0, binv |-> 0, basisrt |-> 0, scenarios |-> 1, quiet |-> 3, conv |-> 0, basverdicts |-> 0])
        /\
        slot = ([b0 |-> [none |-> TRUE], b1 |-> [none |-> TRUE], b2 |-> [none |-> TRUE], b3 |-> [none |-> TRUE], b4 |-> [none |-> TRUE], b5 |-> [none |-> TRUE], b6 |-> [none |-> TRUE], b7 |-> [none |-> TRUE]])
        /\
        l = (5)
    )
----

_init ==
    /\ ans = _TETrace[1].ans
    /\ l = _TETrace[1].l
    /\ viol = _TETrace[1].viol
    /\ glob = _TETrace[1].glob
    /\ cnt = _TETrace[1].cnt
    /\ slot = _TETrace[1].slot
    /\ st = _TETrace[1].st
----

_next ==
    /\ \E i,j \in DOMAIN _TETrace:
        /\ \/ /\ j = i + 1
              /\ i = TLCGet("level")
        /\ ans  = _TETrace[i].ans
        /\ ans' = _TETrace[j].ans
        /\ l  = _TETrace[i].l
        /\ l' = _TETrace[j].l
        /\ viol  = _TETrace[i].viol
        /\ viol' = _TETrace[j].viol
        /\ glob  = _TETrace[i].glob
        /\ glob' = _TETrace[j].glob
        /\ cnt  = _TETrace[i].cnt
        /\ cnt' = _TETrace[j].cnt
        /\ slot  = _TETrace[i].slot
        /\ slot' = _TETrace[j].slot
        /\ st  = _TETrace[i].st
        /\ st' = _TETrace[j].st

\* Uncomment the ASSUME below to write the states of the error trace
\* to the given file in Json format. Note that you can pass any tuple
\* to `JsonSerialize`. For example, a sub-sequence of _TETrace.
    \* ASSUME
    \*     LET J == INSTANCE Json
    \*         IN J!JsonSerialize("Dbg_TTrace_1791141929.json", _TETrace)

=============================================================================

 Note that you can extract this module `Dbg_TEExpression`
  to a dedicated file to reuse `expression` (the module in the 
  dedicated `Dbg_TEExpression.tla` file takes precedence 
  over the module `Dbg_TEExpression` below).

---- MODULE Dbg_TEExpression ----
EXTENDS Sequences, TLCExt, Toolbox, Dbg, Naturals, TLC

expression == 
    [
        \* To hide variables of the `Dbg` spec from the error trace,
        \* remove the variables below.  The trace will be written in the order
        \* of the fields of this record.
        ans |-> ans
        ,l |-> l
        ,viol |-> viol
        ,glob |-> glob
        ,cnt |-> cnt
        ,slot |-> slot
        ,st |-> st
        
        \* Put additional constant-, state-, and action-level expressions here:
        \* ,_stateNumber |-> _TEPosition
        \* ,_ansUnchanged |-> ans = ans'
        
        \* Format the `ans` variable as Json value.
        \* ,_ansJson |->
        \*     LET J == INSTANCE Json
        \*     IN J!ToJson(ans)
        
        \* Lastly, you may build expressions over arbitrary sets of states by
        \* leveraging the _TETrace operator.  For example, this is how to
        \* count the number of times a spec variable changed up to the current
        \* state in the trace.
        \* ,_ansModCount |->
        \*     LET F[s \in DOMAIN _TETrace] ==
        \*         IF s = 1 THEN 0
        \*         ELSE IF _TETrace[s].ans # _TETrace[s-1].ans
        \*             THEN 1 + F[s-1] ELSE F[s-1]
        \*     IN F[_TEPosition - 1]
    ]

=============================================================================



Parsing and semantic processing can take forever if the trace below is long.
 In this case, it is advised to uncomment the module below to deserialize the
 trace from a generated binary file.

\*
\*---- MODULE Dbg_TETrace ----
\*EXTENDS IOUtils, Dbg, TLC
\*
\*trace == IODeserialize("Dbg_TTrace_1791141929.bin", TRUE)
\*
\*=============================================================================
\*

---- MODULE Dbg_TETrace ----
EXTENDS Dbg, TLC

trace == 
    <<
    ([st |-> [h2 |-> [live |-> FALSE], h0 |-> [live |-> FALSE], h1 |-> [live |-> FALSE], h3 |-> [live |-> FALSE], h4 |-> [live |-> FALSE], h5 |-> [live |-> FALSE], h6 |-> [live |-> FALSE], h7 |-> [live |-> FALSE]],ans |-> {},viol |-> {},glob |-> [handler |-> FALSE, prec |-> 128],cnt |-> [events |-> 0, dumps |-> 0, edits |-> 0, rejected |-> 0, optcerts |-> 0, farkas |-> 0, unb |-> 0, solves |-> 0, solobs |-> 0, witnesses |-> 0, agree |-> 0, binv |-> 0, basisrt |-> 0, scenarios |-> 0, quiet |-> 0, conv |-> 0, basverdicts |-> 0],slot |-> [b0 |-> [none |-> TRUE], b1 |-> [none |-> TRUE], b2 |-> [none |-> TRUE], b3 |-> [none |-> TRUE], b4 |-> [none |-> TRUE], b5 |-> [none |-> TRUE], b6 |-> [none |-> TRUE], b7 |-> [none |-> TRUE]],l |-> 1]),
    ([st |-> [h2 |-> [live |-> FALSE], h0 |-> [live |-> FALSE], h1 |-> [live |-> FALSE], h3 |-> [live |-> FALSE], h4 |-> [live |-> FALSE], h5 |-> [live |-> FALSE], h6 |-> [live |-> FALSE], h7 |-> [live |-> FALSE]],ans |-> {},viol |-> {},glob |-> [handler |-> FALSE, prec |-> 128],cnt |-> [events |-> 1, dumps |-> 0, edits |-> 0, rejected |-> 0, optcerts |-> 0, farkas |-> 0, unb |-> 0, solves |-> 0, solobs |-> 0, witnesses |-> 0, agree |-> 0, binv |-> 0, basisrt |-> 0, scenarios |-> 1, quiet |-> 0, conv |-> 0, basverdicts |-> 0],slot |-> [b0 |-> [none |-> TRUE], b1 |-> [none |-> TRUE], b2 |-> [none |-> TRUE], b3 |-> [none |-> TRUE], b4 |-> [none |-> TRUE], b5 |-> [none |-> TRUE], b6 |-> [none |-> TRUE], b7 |-> [none |-> TRUE]],l |-> 2]),
    ([st |-> [h2 |-> [live |-> FALSE], h0 |-> [live |-> FALSE], h1 |-> [live |-> FALSE], h3 |-> [live |-> FALSE], h4 |-> [live |-> FALSE], h5 |-> [live |-> FALSE], h6 |-> [live |-> FALSE], h7 |-> [live |-> FALSE]],ans |-> {},viol |-> {},glob |-> [handler |-> TRUE, prec |-> 128],cnt |-> [events |-> 2, dumps |-> 0, edits |-> 0, rejected |-> 0, optcerts |-> 0, farkas |-> 0, unb |-> 0, solves |-> 0, solobs |-> 0, witnesses |-> 0, agree |-> 0, binv |-> 0, basisrt |-> 0, scenarios |-> 1, quiet |-> 1, conv |-> 0, basverdicts |-> 0],slot |-> [b0 |-> [none |-> TRUE], b1 |-> [none |-> TRUE], b2 |-> [none |-> TRUE], b3 |-> [none |-> TRUE], b4 |-> [none |-> TRUE], b5 |-> [none |-> TRUE], b6 |-> [none |-> TRUE], b7 |-> [none |-> TRUE]],l |-> 3]),
    ([st |-> [h2 |-> [live |-> FALSE], h0 |-> [live |-> TRUE, lp |-> [n |-> 3, A |-> <<<<[v |-> "3", j |-> 1], [v |-> "2", j |-> 2], [v |-> "1", j |-> 3]>>, <<[v |-> "5", j |-> 1], [v |-> "1", j |-> 2]>>>>, m |-> 2, sense |-> <<"L", "E">>, rhs |-> <<"12", "10">>, range |-> <<"0", "0">>, rname |-> <<"c1", "c2">>, obj |-> <<"3", "2", "4">>, lo |-> <<"2", "-inf", "1">>, up |-> <<"inf", "inf", "10">>, cname |-> <<"x", "y", "z">>, isint |-> <<0, 0, 0>>, max |-> TRUE], sync |-> TRUE, par |-> [ppricing |-> 3, dpricing |-> 7, display |-> 0, maxiter |-> 100000, scaling |-> 1], pend |-> {}, obs |-> [none |-> TRUE], taint |-> {}, mut |-> TRUE, edited |-> FALSE, truth |-> [none |-> TRUE], limits |-> FALSE], h1 |-> [live |-> FALSE], h3 |-> [live |-> FALSE], h4 |-> [live |-> FALSE], h5 |-> [live |-> FALSE], h6 |-> [live |-> FALSE], h7 |-> [live |-> FALSE]],ans |-> {},viol |-> {},glob |-> [handler |-> TRUE, prec |-> 128],cnt |-> [events |-> 3, dumps |-> 0, edits |-> 0, rejected |-> 0, optcerts |-> 0, farkas |-> 0, unb |-> 0, solves |-> 0, solobs |-> 0, witnesses |-> 0, agree |-> 0, binv |-> 0, basisrt |-> 0, scenarios |-> 1, quiet |-> 2, conv |-> 0, basverdicts |-> 0],slot |-> [b0 |-> [none |-> TRUE], b1 |-> [none |-> TRUE], b2 |-> [none |-> TRUE], b3 |-> [none |-> TRUE], b4 |-> [none |-> TRUE], b5 |-> [none |-> TRUE], b6 |-> [none |-> TRUE], b7 |-> [none |-> TRUE]],l |-> 4]),
    ([st |-> [h2 |-> [live |-> FALSE], h0 |-> [live |-> TRUE, lp |-> [n |-> 4, A |-> <<<<[v |-> "3", j |-> 1], [v |-> "2", j |-> 2], [v |-> "1", j |-> 3]>>, <<[v |-> "5", j |-> 1], [v |-> "1", j |-> 2]>>>>, m |-> 2, sense |-> <<"L", "E">>, rhs |-> <<"12", "10">>, range |-> <<"0", "0">>, rname |-> <<"c1", "c2">>, obj |-> <<"3", "2", "4">>, lo |-> <<"2", "-inf", "1">>, up |-> <<"inf", "inf", "10">>, cname |-> <<"?", "?", "?", "?">>, isint |-> <<0, 0, 0>>, max |-> TRUE], sync |-> TRUE, par |-> [ppricing |-> 3, dpricing |-> 7, display |-> 0, maxiter |-> 500000, scaling |-> 1, objulim |-> "inf", objllim |-> "-inf", maxtime |-> "300000"], pend |-> {}, obs |-> [none |-> TRUE], taint |-> {}, mut |-> TRUE, edited |-> FALSE, truth |-> [none |-> TRUE], limits |-> FALSE], h1 |-> [live |-> FALSE], h3 |-> [live |-> FALSE], h4 |-> [live |-> FALSE], h5 |-> [live |-> FALSE], h6 |-> [live |-> FALSE], h7 |-> [live |-> FALSE]],ans |-> {},viol |-> {[props |-> {"C06"}, why |-> "query results differ from the reference model: {\"parameters\", \"row/column count\"}", n |-> 4, call |-> "dump"]},glob |-> [handler |-> TRUE, prec |-> 128],cnt |-> [events |-> 4, dumps |-> 1, edits |-> 0, rejected |-> 0, optcerts |-> 0, farkas |-> 0, unb |-> 0, solves |-> 0, solobs |-> 0, witnesses |-> 0, agree |-> 0, binv |-> 0, basisrt |-> 0, scenarios |-> 1, quiet |-> 3, conv |-> 0, basverdicts |-> 0],slot |-> [b0 |-> [none |-> TRUE], b1 |-> [none |-> TRUE], b2 |-> [none |-> TRUE], b3 |-> [none |-> TRUE], b4 |-> [none |-> TRUE], b5 |-> [none |-> TRUE], b6 |-> [none |-> TRUE], b7 |-> [none |-> TRUE]],l |-> 5])
    >>
----


=============================================================================

---- CONFIG Dbg_TTrace_1791141929 ----

INVARIANT
    _inv

CHECK_DEADLOCK
    \* CHECK_DEADLOCK off because of PROPERTY or INVARIANT above.
    FALSE

INIT
    _init

NEXT
    _next

CONSTANT
    _TETrace <- _trace

ALIAS
    _expression
=============================================================================
\* Generated on Sun Oct 04 19:25:30 UTC 2026