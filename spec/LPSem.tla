------------------------------- MODULE LPSem -------------------------------
(***************************************************************************)
(* What a linear program MEANS, in exact rational arithmetic.               *)
(*                                                                         *)
(* An LP value is the record                                               *)
(*   [ m, n    : number of rows / structural columns                        *)
(*     A       : Seq over rows; A[i] = sequence of [j |-> col, v |-> coef], *)
(*               sorted by j, the STORED entries of row i (zeros may be     *)
(*               stored, the library does that too)                         *)
(*     sense   : Seq of "L","G","E","R";  rhs, range : Seq of rationals     *)
(*     obj     : Seq of rationals;  lo, up : Seq of rationals or "-inf"/"inf"*)
(*     max     : BOOLEAN  (maximise)                                        *)
(*     rname, cname : Seq of names;  isint : Seq of 0/1 ]                   *)
(* Row i means  rhs[i] <= a_i.x (G),  a_i.x <= rhs[i] (L),  = (E),          *)
(*              rhs[i] <= a_i.x <= rhs[i] + range[i] (R).                   *)
(*                                                                         *)
(* Solutions are in the EXTERNAL convention of the query API (pinned by     *)
(* experiment, DESIGN.md appendix F):                                       *)
(*   rc_j    = obj_j - sum_i pi_i A[i,j]         (user objective, MIN & MAX) *)
(*   slack_i = rhs_i - act_i (L,E)   act_i - rhs_i (G,R)                    *)
(*   MIN: rc_j > 0 => x_j at (finite) lower, rc_j < 0 => at (finite) upper; *)
(*        MAX mirrored.                                                    *)
(***************************************************************************)
EXTENDS Integers, Sequences, FiniteSets, BigRat

Z == "0"
IsInf(v) == v = "inf" \/ v = "-inf"
Fin(v)   == ~IsInf(v)
\* order on the extended rationals
XLeq(a, b) == a = "-inf" \/ b = "inf" \/ (Fin(a) /\ Fin(b) /\ RLeq(a, b))
XLt(a, b)  == XLeq(a, b) /\ a # b

RECURSIVE SumUpTo(_, _)
SumUpTo(s, k) == IF k = 0 THEN Z ELSE RAdd(SumUpTo(s, k - 1), s[k])
SumSeq(s) == SumUpTo(s, Len(s))

\* a_i . x   for a (dense) vector x over the structural columns
Act(lp, x, i) == SumSeq([k \in 1..Len(lp.A[i]) |-> RMul(lp.A[i][k].v, x[lp.A[i][k].j])])
\* (A^T y)_j for all j at once would be quadratic with row-wise storage; accumulate per column:
\* ColDot(lp, y) = [j |-> sum_i y_i A[i,j]]
RECURSIVE ColDotAcc(_, _, _, _)
ColDotAcc(lp, y, i, acc) ==
  IF i > lp.m THEN acc
  ELSE LET row == lp.A[i]
           RECURSIVE AddRow(_, _)
           AddRow(k, a) == IF k > Len(row) THEN a
                           ELSE AddRow(k + 1, [a EXCEPT ![row[k].j] = RAdd(@, RMul(y[i], row[k].v))])
       IN ColDotAcc(lp, y, i + 1, IF y[i] = Z THEN acc ELSE AddRow(1, acc))
ColDot(lp, y) == ColDotAcc(lp, y, 1, [j \in 1..lp.n |-> Z])

RowLo(lp, i) == IF lp.sense[i] = "L" THEN "-inf" ELSE lp.rhs[i]
RowUp(lp, i) == CASE lp.sense[i] = "G" -> "inf"
                  [] lp.sense[i] = "R" -> RAdd(lp.rhs[i], lp.range[i])
                  [] OTHER -> lp.rhs[i]
Dir(lp) == IF lp.max THEN -1 ELSE 1

WellFormed(lp) ==
  /\ \A j \in 1..lp.n : XLeq(lp.lo[j], lp.up[j]) /\ lp.lo[j] # "inf" /\ lp.up[j] # "-inf"
  /\ \A i \in 1..lp.m : lp.sense[i] = "R" => RSign(lp.range[i]) >= 0

PrimalFeasible(lp, x) ==
  /\ \A j \in 1..lp.n : Fin(x[j]) /\ XLeq(lp.lo[j], x[j]) /\ XLeq(x[j], lp.up[j])
  /\ \A i \in 1..lp.m : LET a == Act(lp, x, i) IN XLeq(RowLo(lp, i), a) /\ XLeq(a, RowUp(lp, i))

ObjVal(lp, x) == SumSeq([j \in 1..lp.n |-> RMul(lp.obj[j], x[j])])

SlackOf(lp, x, i) == IF lp.sense[i] \in {"G", "R"} THEN RSub(Act(lp, x, i), lp.rhs[i])
                                                  ELSE RSub(lp.rhs[i], Act(lp, x, i))
RcOf(lp, pi) == LET t == ColDot(lp, pi) IN [j \in 1..lp.n |-> RSub(lp.obj[j], t[j])]

\* Set of reasons why s = [val, x, pi, slack, rc] is NOT an exact optimality certificate ({} = certificate).
AllFin(seq) == \A k \in 1..Len(seq) : Fin(seq[k])
OptimalCertDefects(lp, s) ==
  IF Len(s.x) # lp.n \/ Len(s.rc) # lp.n \/ Len(s.pi) # lp.m \/ Len(s.slack) # lp.m THEN {[c |-> "shape", k |-> 0]} ELSE
  \* the library's "infinity" (1e150) handed out as a solution value is no certificate (and must not reach the arithmetic)
  IF ~(AllFin(s.x) /\ AllFin(s.rc) /\ AllFin(s.pi) /\ AllFin(s.slack) /\ Fin(s.val)) THEN {[c |-> "infinite value in the solution", k |-> 0]} ELSE
  LET d   == Dir(lp)
      rcT == RcOf(lp, s.pi)
      act == [i \in 1..lp.m |-> Act(lp, s.x, i)]
      dualTerm(i) == LET sg == RSign(s.pi[i]) * d IN
                       IF sg = 0 THEN Z
                       ELSE IF sg > 0 THEN (IF Fin(RowLo(lp, i)) THEN RMul(s.pi[i], RowLo(lp, i)) ELSE "nan")
                                      ELSE (IF Fin(RowUp(lp, i)) THEN RMul(s.pi[i], RowUp(lp, i)) ELSE "nan")
      boxTerm(j) == IF RSign(rcT[j]) = 0 \/ IsInf(s.x[j]) THEN Z ELSE RMul(rcT[j], s.x[j])
      dterms == [i \in 1..lp.m |-> dualTerm(i)]
  IN
  {[c |-> "col bound", k |-> j] : j \in {j \in 1..lp.n : ~(Fin(s.x[j]) /\ XLeq(lp.lo[j], s.x[j]) /\ XLeq(s.x[j], lp.up[j]))}}
  \cup {[c |-> "row violated", k |-> i] : i \in {i \in 1..lp.m : ~(XLeq(RowLo(lp, i), act[i]) /\ XLeq(act[i], RowUp(lp, i)))}}
  \cup {[c |-> "slack value", k |-> i] : i \in {i \in 1..lp.m :
          s.slack[i] # (IF lp.sense[i] \in {"G", "R"} THEN RSub(act[i], lp.rhs[i]) ELSE RSub(lp.rhs[i], act[i]))}}
  \cup {[c |-> "rc value", k |-> j] : j \in {j \in 1..lp.n : s.rc[j] # rcT[j]}}
  \cup {[c |-> "col dual sign", k |-> j] : j \in {j \in 1..lp.n :
          LET g == d * RSign(rcT[j]) IN
            \/ (g > 0 /\ ~(Fin(lp.lo[j]) /\ s.x[j] = lp.lo[j]))
            \/ (g < 0 /\ ~(Fin(lp.up[j]) /\ s.x[j] = lp.up[j]))}}
  \cup {[c |-> "row dual sign", k |-> i] : i \in {i \in 1..lp.m :
          \* min-form: pi_i > 0 leans on the lower side of the row (activity = RowLo), pi_i < 0 on the upper side
          LET g == d * RSign(s.pi[i]) IN
            \/ (g > 0 /\ ~(Fin(RowLo(lp, i)) /\ act[i] = RowLo(lp, i)))
            \/ (g < 0 /\ ~(Fin(RowUp(lp, i)) /\ act[i] = RowUp(lp, i)))}}
  \cup (IF \E j \in 1..lp.n : IsInf(s.x[j]) THEN {} ELSE IF s.val = ObjVal(lp, s.x) THEN {} ELSE {[c |-> "primal objective", k |-> 0]})
  \cup (IF \E i \in 1..lp.m : dterms[i] = "nan" THEN {}   \* already reported as row dual sign
        ELSE IF s.val = RAdd(SumSeq(dterms), SumSeq([j \in 1..lp.n |-> boxTerm(j)])) THEN {} ELSE {[c |-> "dual objective", k |-> 0]})

OptimalCert(lp, s) == OptimalCertDefects(lp, s) = {}

\* x-part only: is the pair (x, pi) optimal (used when only x and y out-parameters are known)
OptimalPair(lp, x, pi) ==
  LET xs == SubSeq(x, 1, lp.n) IN
  OptimalCert(lp, [val |-> ObjVal(lp, xs), x |-> xs, pi |-> pi,
                   slack |-> [i \in 1..lp.m |-> SlackOf(lp, xs, i)], rc |-> RcOf(lp, pi)])

\* Farkas certificate: y_i > 0 leans on the lower side of row i, y_i < 0 on the upper side.
\*   L := sum_i (y_i>0 ? y_i RowLo_i : y_i RowUp_i)  <=  y^T A x  =  t^T x  <=  U := sum_j (t_j>0 ? t_j up_j : t_j lo_j)
\* certificate iff all used sides are finite and U < L.
FarkasDefects(lp, y) ==
  IF Len(y) # lp.m THEN {[c |-> "shape", k |-> 0]} ELSE
  IF ~AllFin(y) THEN {[c |-> "infinite value in the certificate", k |-> 0]} ELSE
  LET t == ColDot(lp, y)
      badrow == {i \in 1..lp.m : (RSign(y[i]) > 0 /\ IsInf(RowLo(lp, i))) \/ (RSign(y[i]) < 0 /\ IsInf(RowUp(lp, i)))}
      badcol == {j \in 1..lp.n : (RSign(t[j]) > 0 /\ IsInf(lp.up[j])) \/ (RSign(t[j]) < 0 /\ IsInf(lp.lo[j]))}
  IN IF badrow # {} THEN {[c |-> "multiplier leans on infinite row side", k |-> CHOOSE i \in badrow : TRUE]}
     ELSE IF badcol # {} THEN {[c |-> "combination leans on infinite bound", k |-> CHOOSE j \in badcol : TRUE]}
     ELSE LET Lrow == SumSeq([i \in 1..lp.m |-> IF RSign(y[i]) > 0 THEN RMul(y[i], RowLo(lp, i))
                                               ELSE IF RSign(y[i]) < 0 THEN RMul(y[i], RowUp(lp, i)) ELSE Z])
              Ubox == SumSeq([j \in 1..lp.n |-> IF RSign(t[j]) > 0 THEN RMul(t[j], lp.up[j])
                                               ELSE IF RSign(t[j]) < 0 THEN RMul(t[j], lp.lo[j]) ELSE Z])
          IN IF RLt(Ubox, Lrow) THEN {} ELSE {[c |-> "no contradiction: U >= L", k |-> 0]}
FarkasCert(lp, y) == FarkasDefects(lp, y) = {}

\* Unboundedness certificate: feasible x0 and a ray d with  lo/up/row-side recession feasibility and improving objective.
RayFeasible(lp, dvec) ==
  /\ \A j \in 1..lp.n : (RSign(dvec[j]) > 0 => lp.up[j] = "inf") /\ (RSign(dvec[j]) < 0 => lp.lo[j] = "-inf")
  /\ \A i \in 1..lp.m : LET a == Act(lp, dvec, i) IN
        (RSign(a) > 0 => RowUp(lp, i) = "inf") /\ (RSign(a) < 0 => RowLo(lp, i) = "-inf")
Improves(lp, dvec) == Dir(lp) * RSign(ObjVal(lp, dvec)) < 0
UnboundedCert(lp, x0, dvec) == Len(x0) = lp.n /\ Len(dvec) = lp.n /\ PrimalFeasible(lp, x0) /\ RayFeasible(lp, dvec) /\ Improves(lp, dvec)

(***************************************************************************)
(* Bases.  External numbering: structural j is column j (1..n), the logical  *)
(* of row i is column n+i; it has coefficient +1 (L,E) or -1 (G,R) in row i,  *)
(* bounds [0, up_i] with up = inf (L,G), 0 (E), range (R).                   *)
(***************************************************************************)
LogCoef(lp, i) == IF lp.sense[i] \in {"G", "R"} THEN "-1" ELSE "1"
LogUp(lp, i)   == CASE lp.sense[i] = "E" -> Z [] lp.sense[i] = "R" -> lp.range[i] [] OTHER -> "inf"
\* entry (row r) of external column c
ColEntry(lp, c, r) ==
  IF c > lp.n THEN (IF c - lp.n = r THEN LogCoef(lp, r) ELSE Z)
  ELSE LET hits == SelectSeq(lp.A[r], LAMBDA e : e.j = c) IN IF hits = <<>> THEN Z ELSE hits[1].v
\* row-vector times the basis matrix whose k-th column is external column order[k]
RowTimesB(lp, order, rv) ==
  [k \in 1..lp.m |-> SumSeq([r \in 1..lp.m |-> IF rv[r] = Z THEN Z ELSE RMul(rv[r], ColEntry(lp, order[k], r))])]
Unit(m, i) == [k \in 1..m |-> IF k = i THEN "1" ELSE Z]
\* binv row i (belonging to basic column order[i]) multiplies back to e_i
InverseRowOK(lp, order, i, rv) == Len(rv) = lp.m /\ RowTimesB(lp, order, rv) = Unit(lp.m, i)
\* tableau row = rv . [A | logicals] over all n+m external columns
TableauRowOK(lp, rv, trow) ==
  /\ Len(trow) = lp.n + lp.m
  /\ LET t == ColDot(lp, rv) IN
       /\ \A j \in 1..lp.n : trow[j] = t[j]
       /\ \A i \in 1..lp.m : trow[lp.n + i] = RMul(rv[i], LogCoef(lp, i))

(***************************************************************************)
(* Basic solutions.  A basis gives every column a status: structurals       *)
(* cstat[j] in "0" (at lower) "1" (basic) "2" (at upper) "3" (free,          *)
(* nonbasic at 0); logicals rstat[i] in "0" "1" "2".  xs = values of the      *)
(* structurals followed by the values of the logicals; pi = row multipliers.  *)
(***************************************************************************)
LogVal(lp, xs, i) == xs[lp.n + i]
BasisShapeOK(lp, cstat, rstat) ==
  /\ Len(cstat) = lp.n /\ Len(rstat) = lp.m
  /\ \A j \in 1..lp.n : cstat[j] \in {"0", "1", "2", "3"}
  /\ \A i \in 1..lp.m : rstat[i] \in {"0", "1", "2"}
  /\ Cardinality({j \in 1..lp.n : cstat[j] = "1"}) + Cardinality({i \in 1..lp.m : rstat[i] = "1"}) = lp.m
\* the nonbasic variables sit where their status says (set of offending [c, k])
NonbasicAtStatus(lp, cstat, rstat, xs) ==
  \* (a non-basic FIXED column, lower = upper, has the value of its bounds whichever non-basic label it carries)
  {[c |-> "nonbasic column not at its status bound", k |-> j] : j \in {j \in 1..lp.n :
       IF cstat[j] # "1" /\ Fin(lp.lo[j]) /\ lp.lo[j] = lp.up[j] THEN xs[j] # lp.lo[j]
       ELSE \/ (cstat[j] = "0" /\ ~(Fin(lp.lo[j]) /\ xs[j] = lp.lo[j]))
            \/ (cstat[j] = "2" /\ ~(Fin(lp.up[j]) /\ xs[j] = lp.up[j]))
            \/ (cstat[j] = "3" /\ xs[j] # Z)}}
  \cup {[c |-> "nonbasic row logical not at its status bound", k |-> i] : i \in {i \in 1..lp.m :
       \/ (rstat[i] = "0" /\ LogVal(lp, xs, i) # Z)
       \/ (rstat[i] = "2" /\ ~(Fin(LogUp(lp, i)) /\ LogVal(lp, xs, i) = LogUp(lp, i)))}}
\* xs, pi is THE basic solution of the basis (unique when the basis matrix is non-singular):
\* nonbasics at their bounds, rows hold as equations with the logicals, reduced cost of every basic column is 0
BasicSolutionDefects(lp, cstat, rstat, xs, pi) ==
  IF Len(xs) # lp.n + lp.m \/ Len(pi) # lp.m THEN {[c |-> "shape", k |-> 0]} ELSE
  LET x == SubSeq(xs, 1, lp.n)
      t == ColDot(lp, pi)
  IN NonbasicAtStatus(lp, cstat, rstat, xs)
     \cup {[c |-> "row equation", k |-> i] : i \in {i \in 1..lp.m : RAdd(Act(lp, x, i), RMul(LogCoef(lp, i), LogVal(lp, xs, i))) # lp.rhs[i]}}
     \cup {[c |-> "basic column has non-zero reduced cost", k |-> j] : j \in {j \in 1..lp.n : cstat[j] = "1" /\ RSub(lp.obj[j], t[j]) # Z}}
     \cup {[c |-> "basic logical has non-zero multiplier", k |-> i] : i \in {i \in 1..lp.m : rstat[i] = "1" /\ pi[i] # Z}}
\* a null vector of the basis matrix (columns = basic variables): proves singularity
BasisSingularWitness(lp, cstat, rstat, v) ==
  /\ Len(v) = lp.n + lp.m /\ \E k \in 1..(lp.n + lp.m) : v[k] # Z
  /\ \A j \in 1..lp.n : cstat[j] # "1" => v[j] = Z
  /\ \A i \in 1..lp.m : rstat[i] # "1" => v[lp.n + i] = Z
  /\ \A i \in 1..lp.m : RAdd(Act(lp, SubSeq(v, 1, lp.n), i), RMul(LogCoef(lp, i), v[lp.n + i])) = Z
\* feasibility of a basic solution
BasisPrimalFeasible(lp, xs) ==
  /\ \A j \in 1..lp.n : XLeq(lp.lo[j], xs[j]) /\ XLeq(xs[j], lp.up[j])
  /\ \A i \in 1..lp.m : XLeq(Z, LogVal(lp, xs, i)) /\ XLeq(LogVal(lp, xs, i), LogUp(lp, i))
\* dual feasibility in the internal minimisation form: nonbasic at lower needs rc >= 0, at upper rc <= 0, free rc = 0;
\* fixed variables (lower = upper; the logical of an E row, a range row with range 0) are never dual infeasible
BasisDualFeasible(lp, cstat, rstat, pi) ==
  LET d == Dir(lp)
      t == ColDot(lp, pi)
      rc(j) == d * RSign(RSub(lp.obj[j], t[j]))
      lrc(i) == d * RSign(RNeg(RMul(LogCoef(lp, i), pi[i])))
  IN /\ \A j \in 1..lp.n : cstat[j] = "1" \/ lp.lo[j] = lp.up[j] \/
            CASE cstat[j] = "0" -> rc(j) >= 0 [] cstat[j] = "2" -> rc(j) <= 0 [] OTHER -> rc(j) = 0
     /\ \A i \in 1..lp.m : rstat[i] = "1" \/ LogUp(lp, i) = Z \/
            CASE rstat[i] = "0" -> lrc(i) >= 0 [] OTHER -> lrc(i) <= 0
=============================================================================
