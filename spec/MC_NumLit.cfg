CONSTANT MaxLen = 5
SPECIFICATION Spec
INVARIANT ScannerRefinesDenotation NeverOverruns PrefixStable
CHECK_DEADLOCK FALSE
