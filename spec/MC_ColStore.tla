---------------------------- MODULE MC_ColStore ----------------------------
(***************************************************************************)
(* Design-level check of the column store: every sequence of add column /   *)
(* add row / change coefficient / delete rows / delete columns on a small     *)
(* store (small EXTRA_MAT so that all growth branches are reached) keeps WF,  *)
(* never touches a slot outside the array, and the store always denotes the   *)
(* abstract matrix M that QSProb would hold (refinement).                     *)
(***************************************************************************)
EXTENDS ColStore, TLC
CONSTANTS XM, MaxRows, MaxCols, MaxCap, Vals
VARIABLES s, M, act
vars == <<s, M, act>>

Rows == 0..(s.nrows - 1)
SeqsOver(S) == UNION {[1..n -> S] : n \in 0..Cardinality(S)}
\* sparse vectors with distinct indices, in any order
Vecs(Idx) == {q \in SeqsOver(Idx \X Vals) : \A a, b \in 1..Len(q) : a # b => q[a][1] # q[b][1]}

Init == s = Empty /\ M = <<>> /\ act = "init"
DoAddCol == /\ NCols(s) < MaxCols
            /\ \E ents \in Vecs(Rows) : s' = AddCol(s, ents, XM) /\ M' = A_AddCol(M, ents)
            /\ act' = "addcol"
DoAddRow == /\ s.nrows < MaxRows
            /\ \E ents \in Vecs(1..NCols(s)) : s' = AddRow(s, ents, XM) /\ M' = A_AddRow(M, s.nrows, ents)
            /\ act' = "addrow"
DoAddCoef == /\ \E r \in Rows, j \in 1..NCols(s), v \in Vals \cup {0} : s' = AddCoef(s, r, j, v, XM) /\ M' = A_AddCoef(M, r, j, v)
             /\ act' = "addcoef"
DoDelRows == /\ \E R \in (SUBSET Rows) \ {{}} : s' = DelRows(s, R) /\ M' = A_DelRows(M, R)
             /\ act' = "delrows"
DoDelCols == /\ \E C \in (SUBSET (1..NCols(s))) \ {{}} : s' = DelCols(s, C) /\ M' = A_DelCols(M, C)
             /\ act' = "delcols"
Next == DoAddCol \/ DoAddRow \/ DoAddCoef \/ DoDelRows \/ DoDelCols
Spec == Init /\ [][Next]_vars

Bound == s.cap <= MaxCap
WellFormed == WF(s)
NoOutOfBounds == ~s.oob
Refines == Abs(s) = M
\* vacuity guards: each of these is expected to be VIOLATED (a state where the branch has been taken exists)
NeverMoved == \A j \in 1..NCols(s) : TRUE
==============================================================================
