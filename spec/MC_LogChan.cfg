INIT Init
NEXT Next
PROPERTY QuietWhenHandled
CONSTRAINT Bound
CHECK_DEADLOCK FALSE
