------------------------------- MODULE Esolver -------------------------------
(***************************************************************************)
(* The esolver command line program as one action: options -> (file type,   *)
(* algorithm, output targets) -> read -> QSexact_solver -> solution file,    *)
(* optional basis file, exit code.  This module fixes the option/type table   *)
(* and the exit-code rule; what the solution file must contain is stated in   *)
(* Trace.tla (event "esolver") through LPSem!OptimalCertDefects.              *)
(***************************************************************************)
EXTENDS Integers, Sequences
\* file type chosen by -L, independent of the file name extension (compression is chosen by .gz / .bz2 suffix)
FileType(optL) == IF optL THEN "LP" ELSE "MPS"
Compression(name) == LET n == Len(name) IN
  IF n >= 3 /\ SubSeq(name, n - 2, n) = <<".", "g", "z">> THEN "gz"
  ELSE IF n >= 4 /\ SubSeq(name, n - 3, n) = <<".", "b", "z", "2">> THEN "bz2" ELSE "none"
\* exit code: 0 iff the file was read and the solver returned (whatever the status); a basis is written only for OPTIMAL
ExitCode(readable, solverRval) == IF readable /\ solverRval = 0 THEN 0 ELSE 1
WritesBasis(optb, status) == optb /\ status = "OPTIMAL"
=============================================================================
