NAME    prob
 XL v1 r2
 XL v4 r3
 UL v2
 UL v3
 UL v5
ENDATA
