NAME    prob
 XL v6 r3
 UL v4
 UL v5
 UL v7
ENDATA
